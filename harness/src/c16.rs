//! C16 — strftime/strptime and RFC 2822 agree with the calendar and invert
//! each other. Independent answers: the reference calendar and glibc's
//! strftime (through FFI, fed with a `struct tm` built by the model).

use crate::c02::{ts_from_ns, MAX_NS, MIN_NS};
use crate::cal::{self, Civ, NS_DAY};
use crate::gen::{self, date_of_day};
use crate::rep::{guard, Ctx};
use crate::rng::{hash64, hash_mix, Rng};
use crate::tzmon::{civ_of, dt_of};
use jiff::civil::{Date, DateTime, Time};
use jiff::fmt::rfc2822;
use jiff::tz::{Offset, TimeZone};
use jiff::{Timestamp, Zoned};
use std::ffi::{CStr, CString};
use std::os::raw::{c_char, c_int, c_long};

const NS: i128 = 1_000_000_000;

#[repr(C)]
struct Tm {
    tm_sec: c_int,
    tm_min: c_int,
    tm_hour: c_int,
    tm_mday: c_int,
    tm_mon: c_int,
    tm_year: c_int,
    tm_wday: c_int,
    tm_yday: c_int,
    tm_isdst: c_int,
    tm_gmtoff: c_long,
    tm_zone: *const c_char,
}

extern "C" {
    fn strftime(s: *mut c_char, max: usize, format: *const c_char, tm: *const Tm) -> usize;
}

/// glibc's answer for a format on a civil time (C locale), with gmtoff/zone.
fn glibc(fmt: &str, c: Civ, gmtoff: i32, zone: &str) -> Option<String> {
    let (y, m, d) = c.ymd();
    let (h, mi, s, _) = c.hms();
    let wd = cal::weekday_from_days(c.day) % 7; // Sunday = 0
    let z = CString::new(zone).ok()?;
    let tm = Tm { tm_sec: s as c_int, tm_min: mi as c_int, tm_hour: h as c_int, tm_mday: d as c_int, tm_mon: (m - 1) as c_int, tm_year: (y - 1900) as c_int, tm_wday: wd as c_int, tm_yday: (cal::day_of_year(y, m, d) - 1) as c_int, tm_isdst: 0, tm_gmtoff: gmtoff as c_long, tm_zone: z.as_ptr() };
    let f = CString::new(fmt).ok()?;
    let mut buf = vec![0 as c_char; 256];
    let n = unsafe { strftime(buf.as_mut_ptr(), buf.len(), f.as_ptr(), &tm) };
    if n == 0 {
        return None;
    }
    Some(unsafe { CStr::from_ptr(buf.as_ptr()) }.to_string_lossy().into_owned())
}

const WD_FULL: [&str; 7] = ["Sunday", "Monday", "Tuesday", "Wednesday", "Thursday", "Friday", "Saturday"];
const MON_FULL: [&str; 12] = ["January", "February", "March", "April", "May", "June", "July", "August", "September", "October", "November", "December"];

/// The reference answer for a single (unflagged) specifier.
fn model_spec(spec: &str, c: Civ) -> Option<String> {
    let (y, m, d) = c.ymd();
    let (h, mi, s, ns) = c.hms();
    let wd0 = (cal::weekday_from_days(c.day) % 7) as usize; // Sunday = 0
    let yday0 = cal::day_of_year(y, m, d) - 1;
    let (iy, iw, iwd) = cal::iso_week(y, m, d);
    let y4 = |v: i64| if v >= 0 { format!("{:04}", v) } else { format!("-{:04}", -v) };
    Some(match spec {
        "%a" => WD_FULL[wd0][..3].to_string(),
        "%A" => WD_FULL[wd0].to_string(),
        "%b" | "%h" => MON_FULL[(m - 1) as usize][..3].to_string(),
        "%B" => MON_FULL[(m - 1) as usize].to_string(),
        "%d" => format!("{:02}", d),
        "%e" => format!("{:2}", d),
        "%j" => format!("{:03}", yday0 + 1),
        "%m" => format!("{:02}", m),
        "%u" => format!("{}", iwd),
        "%w" => format!("{}", wd0),
        "%U" => format!("{:02}", (yday0 + 7 - wd0 as i64) / 7),
        "%W" => format!("{:02}", (yday0 + 7 - ((wd0 as i64 + 6) % 7)) / 7),
        "%V" => format!("{:02}", iw),
        "%G" => y4(iy),
        "%g" => format!("{:02}", iy.rem_euclid(100)),
        "%y" => format!("{:02}", y.rem_euclid(100)),
        "%Y" => y4(y),
        "%F" => format!("{}-{:02}-{:02}", y4(y), m, d),
        "%D" => format!("{:02}/{:02}/{:02}", m, d, y.rem_euclid(100)),
        "%C" => format!("{}", y.div_euclid(100)),
        "%H" => format!("{:02}", h),
        "%k" => format!("{:2}", h),
        "%I" => format!("{:02}", if h % 12 == 0 { 12 } else { h % 12 }),
        "%l" => format!("{:2}", if h % 12 == 0 { 12 } else { h % 12 }),
        "%M" => format!("{:02}", mi),
        "%S" => format!("{:02}", s),
        "%p" => if h < 12 { "AM" } else { "PM" }.to_string(),
        "%P" => if h < 12 { "am" } else { "pm" }.to_string(),
        "%R" => format!("{:02}:{:02}", h, mi),
        "%T" => format!("{:02}:{:02}:{:02}", h, mi, s),
        "%f" => {
            let t = format!("{:09}", ns);
            let t = t.trim_end_matches('0');
            if t.is_empty() {
                "0".to_string()
            } else {
                t.to_string()
            }
        }
        "%.f" => {
            let t = format!("{:09}", ns);
            let t = t.trim_end_matches('0');
            if t.is_empty() {
                String::new()
            } else {
                format!(".{}", t)
            }
        }
        "%3f" => format!("{:03}", ns / 1_000_000),
        "%6f" => format!("{:06}", ns / 1_000),
        "%9f" => format!("{:09}", ns),
        "%.3f" => format!(".{:03}", ns / 1_000_000),
        "%.6f" => format!(".{:06}", ns / 1_000),
        "%.9f" => format!(".{:09}", ns),
        "%n" => "\n".to_string(),
        "%t" => "\t".to_string(),
        "%%" => "%".to_string(),
        _ => return None,
    })
}

const DATE_SPECS: [&str; 21] = ["%a", "%A", "%b", "%B", "%h", "%C", "%d", "%e", "%j", "%m", "%u", "%w", "%U", "%W", "%V", "%G", "%g", "%y", "%Y", "%F", "%D"];
const TIME_SPECS: [&str; 22] = ["%H", "%I", "%k", "%l", "%M", "%S", "%p", "%P", "%R", "%T", "%f", "%.f", "%3f", "%6f", "%9f", "%.3f", "%.6f", "%.9f", "%n", "%t", "%%", "%S"];
/// specifiers glibc and jiff define identically (glibc has no %f; %C/%Y/%G differ in padding below year 1000; %P is a GNU extension that exists)
const GLIBC_SAME: [&str; 27] = ["%a", "%A", "%b", "%B", "%h", "%d", "%e", "%j", "%m", "%u", "%w", "%U", "%W", "%V", "%g", "%y", "%D", "%H", "%I", "%k", "%l", "%M", "%S", "%p", "%P", "%R", "%T"];

fn check_specs(cx: &mut Ctx, c: Civ, specs: &[&str], with_glibc: bool) {
    let Some(dt) = dt_of(c) else { return };
    let case = || format!("spec|{}|{}", c.day, c.nod);
    let y = c.ymd().0;
    for &sp in specs {
        cx.eval(1);
        let got = guard(|| jiff::fmt::strtime::format(sp, dt).ok());
        let got = match got {
            Err(p) => {
                cx.violation(&format!("strftime({})/panic@{}", sp, p.loc()), case, || "no panic".into(), || p.what.clone());
                continue;
            }
            Ok(g) => g,
        };
        // negative years: jiff documents zero padding to 4 digits only; the sign form is not specified
        let year_spec = matches!(sp, "%Y" | "%G" | "%F" | "%C");
        if year_spec && y < 0 {
            cx.count("negative_year_specifier_no_verdict", 1);
            continue;
        }
        let exp = model_spec(sp, c);
        // %y/%g (and %D, which contains %y) are documented to "represent only 1969-2068": refusing to print
        // outside that window is the documented behaviour; printing anything else is not
        let two_digit = match sp {
            "%y" | "%D" => Some(y),
            "%g" => Some(cal::iso_week(c.ymd().0, c.ymd().1, c.ymd().2).0),
            _ => None,
        };
        if let Some(yy) = two_digit {
            if !(1969..=2068).contains(&yy) {
                if got.is_some() {
                    cx.violation(&format!("strftime({})/prints-outside-documented-window", sp), case, || "Err".into(), || format!("{:?}", got));
                } else {
                    cx.count("two_digit_year_outside_1969_2068_refused", 1);
                }
                continue;
            }
        }
        if got != exp {
            cx.violation(&format!("strftime({})/differs-from-calendar", sp), case, || format!("{:?}", exp), || format!("{:?}", got));
            continue;
        }
        if with_glibc && GLIBC_SAME.contains(&sp) || (with_glibc && matches!(sp, "%Y" | "%G" | "%F" | "%C") && y >= 1000) {
            cx.eval(1);
            let g = glibc(sp, c, 0, "UTC");
            if g != got {
                // the model and jiff agree but glibc differs: the oracle is in doubt
                cx.violation(&format!("strftime({})/differs-from-glibc", sp), case, || format!("{:?}", g), || format!("{:?}", got));
            }
        }
    }
}

/// (value, default pad char, default width) of a numeric specifier
fn numeric(spec: &str, c: Civ) -> (i64, Option<char>, usize) {
    let (y, m, d) = c.ymd();
    let (h, mi, s, _) = c.hms();
    let wd0 = cal::weekday_from_days(c.day) % 7;
    let yday0 = cal::day_of_year(y, m, d) - 1;
    let (iy, iw, iwd) = cal::iso_week(y, m, d);
    let h12 = if h % 12 == 0 { 12 } else { h % 12 };
    match spec {
        "d" => (d, Some('0'), 2),
        "e" => (d, Some(' '), 2),
        "j" => (yday0 + 1, Some('0'), 3),
        "m" => (m, Some('0'), 2),
        "H" => (h, Some('0'), 2),
        "k" => (h, Some(' '), 2),
        "I" => (h12, Some('0'), 2),
        "l" => (h12, Some(' '), 2),
        "M" => (mi, Some('0'), 2),
        "S" => (s, Some('0'), 2),
        "U" => ((yday0 + 7 - wd0) / 7, Some('0'), 2),
        "W" => ((yday0 + 7 - (wd0 + 6) % 7) / 7, Some('0'), 2),
        "V" => (iw, Some('0'), 2),
        "y" => (y.rem_euclid(100), Some('0'), 2),
        "g" => (iy.rem_euclid(100), Some('0'), 2),
        "Y" => (y, Some('0'), 4),
        "G" => (iy, Some('0'), 4),
        "u" => (iwd, None, 0),
        "w" => (wd0, None, 0),
        _ => (y.div_euclid(100), None, 0), // C
    }
}

/// flags and widths on numeric specifiers. jiff documents the width as "the minimum amount of padding", replacing
/// the specifier's default width, and the flag as replacing the default pad character; glibc agrees whenever the
/// width is at least the default width and a pad character is determined (by flag or by the specifier's default).
fn check_flags(cx: &mut Ctx, c: Civ, r: &mut Rng) {
    let Some(dt) = dt_of(c) else { return };
    if c.ymd().0 < 1000 {
        return;
    }
    let spec = *r.pick(&["d", "e", "j", "m", "H", "I", "k", "l", "M", "S", "U", "W", "V", "y", "g", "Y", "G", "u", "w", "C"]);
    let flag = *r.pick(&["", "_", "-", "0"]);
    let width = *r.pick(&["", "", "1", "2", "3", "5", "8", "12"]);
    let fmt = format!("%{}{}{}", flag, width, spec);
    let case = || format!("flag|{}|{}|{}", c.day, c.nod, fmt);
    let (val, dpad, dwidth) = numeric(spec, c);
    let window = match spec {
        "y" => Some(c.ymd().0),
        "g" => Some(cal::iso_week(c.ymd().0, c.ymd().1, c.ymd().2).0),
        _ => None,
    };
    cx.eval(1);
    let got = guard(|| jiff::fmt::strtime::format(&fmt, dt).ok());
    match got {
        Err(p) => cx.violation(&format!("strftime(flags)/panic@{}", p.loc()), case, || "no panic".into(), || p.what.clone()),
        Ok(g) => {
            let w: Option<usize> = width.parse().ok();
            let pad = match flag {
                "_" => Some(' '),
                "0" => Some('0'),
                "-" => None,
                _ => dpad,
            };
            let digits = val.to_string();
            let target = if flag == "-" { 0 } else { w.unwrap_or(dwidth) };
            // a width with neither a flag nor a default pad character (%5u): pad character unspecified
            let pad_unspecified = flag.is_empty() && dpad.is_none() && w.is_some();
            // '-' ("do not pad") together with a width is contradictory; glibc pads with spaces, jiff does not pad
            let contradictory = flag == "-" && w.is_some();
            if let Some(yy) = window {
                if !(1969..=2068).contains(&yy) {
                    if g.is_some() {
                        cx.violation(&format!("strftime(%{})/prints-outside-documented-window", spec), case, || "Err".into(), || format!("{:?}", g));
                    }
                    return;
                }
            }
            if pad_unspecified || contradictory {
                cx.count("flag_width_combination_unspecified_no_verdict", 1);
            } else {
                let mut exp = String::new();
                for _ in digits.len()..target {
                    exp.push(pad.unwrap_or(' '));
                }
                exp.push_str(&digits);
                if g.as_deref() != Some(exp.as_str()) {
                    cx.violation(&format!("strftime(%{}{}{})/padding", flag, if w.is_some() { "N" } else { "" }, spec), case, || exp.clone(), || format!("{:?}", g));
                } else if w.map_or(true, |w| w >= dwidth) && !(spec == "C") && !((spec == "Y" || spec == "G") && flag == "_" && w.is_none()) {
                    // same semantics in the C library: glibc must give the same text, or the model is in doubt
                    cx.eval(1);
                    let e = glibc(&fmt, c, 0, "UTC");
                    if e != g {
                        cx.violation(&format!("strftime(%{}{}{})/differs-from-glibc", flag, if w.is_some() { "N" } else { "" }, spec), case, || format!("{:?}", e), || format!("{:?}", g));
                    }
                }
            }
        }
    }
    // string flags: ^ upper-cases; # swaps the case where the default is entirely one case (%p, %P): as glibc does
    let sspec = *r.pick(&["a", "A", "b", "B", "p", "P", "h"]);
    for fl in ["^", "#"] {
        if fl == "#" && !matches!(sspec, "p" | "P") {
            continue;
        }
        // glibc prints "%^P" in lower case (its %P forces lower case after flags are read); jiff documents ^ as upper case: no verdict
        if fl == "^" && sspec == "P" {
            continue;
        }
        let fmt = format!("%{}{}", fl, sspec);
        let exp = glibc(&fmt, c, 0, "UTC");
        let plain = model_spec(&format!("%{}", sspec), c).unwrap_or_default();
        if fl == "^" && sspec != "P" && exp.as_deref() != Some(plain.to_uppercase().as_str()) {
            cx.inconclusive(format!("glibc {} gives {:?}", fmt, exp));
            return;
        }
        cx.eval(1);
        if let Ok(g) = guard(|| jiff::fmt::strtime::format(&fmt, dt).ok()) {
            if g != exp {
                cx.violation(&format!("strftime(%{}{})/case", fl, sspec), || format!("flag|{}|{}|{}", c.day, c.nod, fmt), || format!("{:?}", exp), || format!("{:?}", g));
            }
        }
    }
}

// ---------------------------------------------------------------------------
// inverse law

/// (format, determines: 0 = DateTime, 1 = Date, 2 = Time), usable for any year 0..=9999
const DETERMINING: [(&str, u8); 20] = [
    ("%y-%m-%d %H:%M", 3),
    ("%D %T", 3),
    ("%g-W%V-%u", 4),
    ("%d %b %y", 4),
    ("%Y-%m-%d %H:%M:%S%.f", 0),
    ("%F %T.%9f", 0),
    ("%Y-%j %H:%M:%S%.f", 0),
    ("%G-W%V-%u %R:%S%.f", 0),
    ("%A, %d %B %Y %I:%M:%S%.f %p", 0),
    ("%a %e %b %Y %l:%M:%S %P %f", 0),
    ("%Y%m%d%H%M%S", 0),
    ("%d/%m/%Y%n%k:%M:%S%t%6f", 0),
    ("%Y-%m-%d", 1),
    ("%B %-d, %Y", 1),
    ("%Y-%j", 1),
    ("%G-%V-%w", 1),
    ("%a, %d %h %Y", 1),
    ("%H:%M:%S%.f", 2),
    ("%I:%M:%S %p .%3f", 2),
    ("%T", 2),
];

fn check_inverse(cx: &mut Ctx, c: Civ, r: &mut Rng) {
    if c.ymd().0 < 0 {
        return;
    }
    let (fmt, kind) = *r.pick(&DETERMINING);
    // kinds 3/4: DateTime/Date through a two-digit year, defined for 1969..=2068 only (the documented pivot)
    let (c, kind) = if kind >= 3 {
        let lo = cal::days_from_civil(1969, 1, 1);
        let hi = cal::days_from_civil(2068, 12, 31);
        let mut day = if (lo..=hi).contains(&c.day) { c.day } else { lo + (c.day - cal::MIN_DAY) % (hi - lo + 1) };
        if fmt.contains("%g") {
            // the ISO year must be in the window too
            let (y, m, d) = cal::civil_from_days(day);
            if !(1969..=2068).contains(&cal::iso_week(y, m, d).0) {
                day = lo + 40;
            }
        }
        (Civ { day, nod: c.nod - c.nod % 60_000_000_000 + if fmt.contains("%T") { (c.nod / 1_000_000_000 % 60) * 1_000_000_000 } else { 0 } }, kind - 3)
    } else {
        (c, kind)
    };
    let Some(dt) = dt_of(c) else { return };
    let case = || format!("inv|{}|{}|{}", c.day, c.nod, fmt);
    // precision of the format
    let unit: i64 = if fmt.contains("%.f") || fmt.contains("%9f") || fmt.contains(" %f") { 1 } else if fmt.contains("%6f") { 1_000 } else if fmt.contains("%3f") { 1_000_000 } else { 1_000_000_000 };
    let nod_exp = c.nod - c.nod % unit;
    cx.eval(1);
    let r2 = guard(|| {
        let s = jiff::fmt::strtime::format(fmt, dt).ok()?;
        let back = match kind {
            0 => DateTime::strptime(fmt, &s).ok().map(|d| civ_of(d).to_ns()),
            1 => Date::strptime(fmt, &s).ok().map(|d| gen::day_of_date(d) as i128 * NS_DAY),
            _ => Time::strptime(fmt, &s).ok().map(|t| gen::nod_of_time(t) as i128),
        };
        Some((s, back))
    });
    match r2 {
        Err(p) => cx.violation(&format!("strptime(strftime)/panic@{}", p.loc()), case, || "no panic".into(), || p.what.clone()),
        Ok(None) => cx.violation("strftime/refuses-determining-format", case, || "Ok".into(), || "Err".into()),
        Ok(Some((s, back))) => {
            let exp = match kind {
                0 => Civ { day: c.day, nod: nod_exp }.to_ns(),
                1 => c.day as i128 * NS_DAY,
                _ => nod_exp as i128,
            };
            let tuesday = cal::weekday_from_days(c.day) == 2;
            if back.is_none() && fmt.contains("%A") && tuesday && kind != 2 {
                cx.violation("strptime(%A)/rejects-\"Tuesday\"", case, || format!("{}", exp), || format!("{:?} from {:?}", back, s));
            } else if back != Some(exp) {
                cx.violation("strptime(fmt, strftime(fmt, x)) != x", case, || format!("{}", exp), || format!("{:?} from {:?}", back, s));
            }
        }
    }
    // a contradictory weekday must be rejected
    if kind != 2 && (fmt.contains("%a") || fmt.contains("%A")) {
        let wrong = Civ { day: c.day + 1, nod: c.nod };
        if let (Some(wdt), Ok(Some(s))) = (dt_of(wrong), guard(|| jiff::fmt::strtime::format(fmt, dt).ok())) {
            // splice the next day's weekday name into today's text
            let (today, tomorrow) = (WD_FULL[(cal::weekday_from_days(c.day) % 7) as usize], WD_FULL[(cal::weekday_from_days(wrong.day) % 7) as usize]);
            let bad = if fmt.contains("%A") { s.replacen(today, tomorrow, 1) } else { s.replacen(&today[..3], &tomorrow[..3], 1) };
            let _ = wdt;
            cx.eval(1);
            let ok = guard(|| if kind == 0 { DateTime::strptime(fmt, &bad).is_ok() } else { Date::strptime(fmt, &bad).is_ok() });
            if let Ok(true) = ok {
                cx.violation("strptime/accepts-contradictory-weekday", case, || "Err".into(), || bad.clone());
            }
        }
    }
}

/// A weekday that contradicts a date determined by other fields must be rejected, whichever way the date is
/// determined (month/day, day of year, %F, month name) and whichever way the weekday is written (%a %A %u %w);
/// the right weekday must be accepted and give the date.
fn check_weekday_contradiction(cx: &mut Ctx, c: Civ, r: &mut Rng) {
    if c.ymd().0 < 0 {
        return;
    }
    let Some(dt) = dt_of(c) else { return };
    let df = *r.pick(&["%Y-%m-%d", "%Y-%j", "%F", "%d %b %Y", "%B %e, %Y", "%Y%m%d", "%j of %Y"]);
    let ws = *r.pick(&["%a", "%A", "%u", "%w"]);
    let first = r.chance(1, 2);
    let fmt = if first { format!("{} {}", ws, df) } else { format!("{} {}", df, ws) };
    let case = || format!("wd|{}|{}|{}", c.day, c.nod, fmt);
    let Ok(Some(dtext)) = guard(|| jiff::fmt::strtime::format(df, dt).ok()) else { return };
    let wd_text = |day: i64| model_spec(ws, Civ { day, nod: 0 }).unwrap_or_default();
    let shift = r.range(1, 6);
    // same weekday text for a day `shift` days later: a wrong weekday for this date
    let wrong = wd_text(c.day + shift);
    let right = wd_text(c.day);
    let mk = |w: &str| if first { format!("{} {}", w, dtext) } else { format!("{} {}", dtext, w) };
    cx.eval(2);
    let bad = mk(&wrong);
    match guard(|| Date::strptime(&fmt, &bad).ok().map(gen::day_of_date)) {
        Err(p) => cx.violation(&format!("strptime(contradictory weekday)/panic@{}", p.loc()), case, || "Err".into(), || p.what.clone()),
        Ok(Some(d)) => cx.violation(&format!("strptime/accepts-contradictory-weekday[{} with {}]", ws, df), case, || "Err".into(), || format!("{:?} gives day {}", bad, d)),
        Ok(None) => {}
    }
    let good = mk(&right);
    let tuesday_a = ws == "%A" && cal::weekday_from_days(c.day) == 2;
    match guard(|| Date::strptime(&fmt, &good).ok().map(gen::day_of_date)) {
        Err(p) => cx.violation(&format!("strptime(consistent weekday)/panic@{}", p.loc()), case, || "Ok".into(), || p.what.clone()),
        Ok(None) if tuesday_a => cx.violation("strptime(%A)/rejects-\"Tuesday\"", case, || format!("{}", c.day), || format!("Err from {:?}", good)),
        Ok(got) => {
            if got != Some(c.day) {
                cx.violation(&format!("strptime/consistent-weekday[{} with {}]", ws, df), case, || format!("{}", c.day), || format!("{:?} from {:?}", got, good));
            }
        }
    }
}

// ---------------------------------------------------------------------------
// zoned specifiers and RFC 2822

fn fmt_z(off: i32, colon: bool) -> String {
    let a = off.abs();
    let (h, m, s) = (a / 3600, a / 60 % 60, a % 60);
    let sign = if off < 0 { '-' } else { '+' };
    match (colon, s != 0) {
        (false, false) => format!("{}{:02}{:02}", sign, h, m),
        (false, true) => format!("{}{:02}{:02}{:02}", sign, h, m, s),
        (true, false) => format!("{}{:02}:{:02}", sign, h, m),
        (true, true) => format!("{}{:02}:{:02}:{:02}", sign, h, m, s),
    }
}

fn check_zoned(cx: &mut Ctx, t: i128, off: i32, named: Option<&TimeZone>) {
    let Some(ts) = ts_from_ns(t) else { return };
    let tz = named.cloned().unwrap_or_else(|| TimeZone::fixed(Offset::from_seconds(off).unwrap()));
    let zd = Zoned::new(ts, tz.clone());
    let off = zd.offset().seconds();
    let case = || format!("zoned|{}|{}|{}", t, off, tz.iana_name().unwrap_or(""));
    let secs = t.div_euclid(NS);
    cx.eval(6);
    let r = guard(|| {
        let f = |fmt: &str| jiff::fmt::strtime::format(fmt, &zd).ok();
        (f("%z"), f("%:z"), f("%s"), f("%Q"), f("%:Q"), f("%Y-%m-%dT%H:%M:%S%.f%z"))
    });
    match r {
        Err(p) => cx.violation(&format!("strftime(zoned)/panic@{}", p.loc()), case, || "no panic".into(), || p.what.clone()),
        Ok((z, cz, s, q, cq, full)) => {
            if z.as_deref() != Some(fmt_z(off, false).as_str()) {
                cx.violation("strftime(%z)", case, || fmt_z(off, false), || format!("{:?}", z));
            }
            if cz.as_deref() != Some(fmt_z(off, true).as_str()) {
                cx.violation("strftime(%:z)", case, || fmt_z(off, true), || format!("{:?}", cz));
            }
            // %s: Unix seconds (truncated toward zero like Timestamp::as_second)
            let es = (t / NS).to_string();
            if s.as_deref().map(|x| x.trim()) != Some(es.as_str()) {
                cx.violation("strftime(%s)", case, || es.clone(), || format!("{:?} (floor would be {})", s, secs));
            }
            let eq = tz.iana_name().map(|n| n.to_string()).unwrap_or_else(|| fmt_z(off, false));
            if q.as_deref() != Some(eq.as_str()) {
                cx.violation("strftime(%Q)", case, || eq.clone(), || format!("{:?}", q));
            }
            let ecq = tz.iana_name().map(|n| n.to_string()).unwrap_or_else(|| fmt_z(off, true));
            if cq.as_deref() != Some(ecq.as_str()) {
                cx.violation("strftime(%:Q)", case, || ecq.clone(), || format!("{:?}", cq));
            }
            // inverse through a determining format with an offset
            if let Some(full) = full {
                if zd.year() >= 0 {
                    cx.eval(2);
                    let back = guard(|| Timestamp::strptime("%Y-%m-%dT%H:%M:%S%.f%z", &full).ok().map(|x| x.as_nanosecond()));
                    if let Ok(b) = back {
                        if b != Some(t) {
                            cx.violation("Timestamp::strptime(strftime(%z))", case, || format!("{}", t), || format!("{:?} from {:?}", b, full));
                        }
                    }
                    let zb = guard(|| Zoned::strptime("%Y-%m-%dT%H:%M:%S%.f%z", &full).ok().map(|x| (x.timestamp().as_nanosecond(), x.offset().seconds())));
                    if let Ok(b) = zb {
                        if b != Some((t, off)) {
                            cx.violation("Zoned::strptime(strftime(%z))", case, || format!("{:?}", (t, off)), || format!("{:?} from {:?}", b, full));
                        }
                    }
                }
            }
            // a named zone: offset plus %Q, and %Q alone
            if let Some(name) = tz.iana_name() {
                if zd.year() >= 0 {
                    cx.eval(2);
                    let r1 = guard(|| {
                        let f = "%Y-%m-%dT%H:%M:%S%.f%:z[%Q]";
                        let s = jiff::fmt::strtime::format(f, &zd).ok()?;
                        let b = Zoned::strptime(f, &s).ok().map(|x| (x.timestamp().as_nanosecond(), x.time_zone().iana_name().map(|n| n.to_string())));
                        Some((s, b))
                    });
                    if let Ok(Some((s, b))) = r1 {
                        if b != Some((t, Some(name.to_string()))) {
                            cx.violation("Zoned::strptime(strftime(%:z[%Q]))", case, || format!("{} in {}", t, name), || format!("{:?} from {:?}", b, s));
                        }
                    } else {
                        cx.violation("Zoned::strftime(%:z[%Q])/fails", case, || "Ok".into(), || format!("{:?}", r1.map(|_| ()).map_err(|p| p.what)));
                    }
                    let r2 = guard(|| {
                        let f = "%Y-%m-%d %H:%M:%S%.f %Q";
                        let s = jiff::fmt::strtime::format(f, &zd).ok()?;
                        let b = Zoned::strptime(f, &s).ok().map(|x| (x.timestamp().as_nanosecond(), civ_of(x.datetime())));
                        Some((s, b))
                    });
                    if let Ok(Some((s, b))) = r2 {
                        let ambiguous = tz.to_ambiguous_zoned(zd.datetime()).is_ambiguous();
                        let okay = match b {
                            None => false,
                            Some((bt, bc)) => bc == civ_of(zd.datetime()) && (ambiguous || bt == t),
                        };
                        if !okay {
                            cx.violation("Zoned::strptime(strftime(%Q))", case, || format!("{} civil {:?}", t, civ_of(zd.datetime())), || format!("{:?} from {:?}", b, s));
                        }
                    }
                }
            }
            // %s alone determines a timestamp to the second
            cx.eval(1);
            if let Ok(Some(b)) = guard(|| Timestamp::strptime("%s", &es).ok().map(|x| x.as_second())) {
                if b as i128 != t / NS {
                    cx.violation("Timestamp::strptime(%s)", case, || es.clone(), || format!("{}", b));
                }
            }
        }
    }
}

const MON3: [&str; 12] = ["Jan", "Feb", "Mar", "Apr", "May", "Jun", "Jul", "Aug", "Sep", "Oct", "Nov", "Dec"];

/// independent reading of "Sat, 13 Jul 2024 15:09:59 -0400"
fn read_2822(s: &str) -> Option<(i128, i32)> {
    let (wd, rest) = s.split_once(", ")?;
    let p: Vec<&str> = rest.split(' ').collect();
    if p.len() != 5 {
        return None;
    }
    let d: i64 = p[0].parse().ok()?;
    let m = MON3.iter().position(|x| *x == p[1])? as i64 + 1;
    let y: i64 = p[2].parse().ok()?;
    let hms: Vec<i64> = p[3].split(':').filter_map(|x| x.parse().ok()).collect();
    if hms.len() != 3 || !cal::valid(y, m, d) || p[4].len() != 5 {
        return None;
    }
    let sign = match &p[4][..1] {
        "+" => 1,
        "-" => -1,
        _ => return None,
    };
    let oh: i32 = p[4][1..3].parse().ok()?;
    let om: i32 = p[4][3..5].parse().ok()?;
    let off = sign * (oh * 3600 + om * 60);
    let day = cal::days_from_civil(y, m, d);
    if WD_FULL[(cal::weekday_from_days(day) % 7) as usize][..3] != *wd {
        return None;
    }
    Some(((day as i128 * 86400 + (hms[0] * 3600 + hms[1] * 60 + hms[2]) as i128 - off as i128), off))
}

fn check_2822(cx: &mut Ctx, t: i128, off: i32) {
    let Some(ts) = ts_from_ns(t) else { return };
    let zd = Zoned::new(ts, TimeZone::fixed(Offset::from_seconds(off).unwrap()));
    let case = || format!("2822|{}|{}", t, off);
    cx.eval(3);
    let r = guard(|| {
        let s = rfc2822::to_string(&zd).ok();
        let back = s.as_ref().and_then(|s| rfc2822::parse(s).ok()).map(|b| (b.timestamp().as_second(), b.offset().seconds()));
        let ts_s = rfc2822::DateTimePrinter::new().timestamp_to_string(&ts).ok();
        let ts_back = ts_s.as_ref().and_then(|s| rfc2822::DateTimeParser::new().parse_timestamp(s).ok()).map(|b| b.as_second());
        (s, back, ts_s, ts_back)
    });
    let year = zd.year();
    let floor_s = t.div_euclid(NS) as i64;
    match r {
        Err(p) => cx.violation(&format!("rfc2822/panic@{}", p.loc()), case, || "no panic".into(), || p.what.clone()),
        Ok((s, back, ts_s, ts_back)) => {
            let Some(s) = s else {
                if year >= 0 {
                    cx.violation("rfc2822::to_string/refuses-non-negative-year", case, || "Ok".into(), || "Err".into());
                }
                return;
            };
            // offsets are carried to the minute: jiff prints the offset rounded/truncated to the minute
            let printed = read_2822(&s);
            match printed {
                None => cx.violation("rfc2822::to_string/not-well-formed", case, || "Www, D Mon YYYY HH:MM:SS +hhmm with a consistent weekday".into(), || s.clone()),
                Some((inst, poff)) => {
                    if off % 60 == 0 {
                        if inst != floor_s as i128 || poff != off {
                            cx.violation("rfc2822::to_string/independent-reader", case, || format!("{} at {}", floor_s, off), || format!("{} at {} from {:?}", inst, poff, s));
                        }
                    } else if (poff - off).abs() >= 60 {
                        cx.violation("rfc2822::to_string/offset-not-to-the-minute", case, || format!("about {}", off), || format!("{} from {:?}", poff, s));
                    }
                }
            }
            match back {
                // an offset with seconds is printed rounded to the minute, which moves the instant by up to 30 s:
                // within a minute of the limits of the supported range the printed text may denote an instant outside it
                None if off % 60 != 0 && (t > MAX_NS - 60 * NS || t < MIN_NS + 60 * NS) => cx.count("rfc2822_sub_minute_offset_at_range_edge_no_verdict", 1),
                None => cx.violation("rfc2822::parse/rejects-printed-text", case, || "Ok".into(), || s.clone()),
                Some((bs, bo)) => {
                    if off % 60 == 0 && (bs != floor_s || bo != off) {
                        cx.violation("rfc2822 print->parse", case, || format!("{:?}", (floor_s, off)), || format!("{:?} from {:?}", (bs, bo), s));
                    }
                }
            }
            if let Some(ts_s) = ts_s {
                if ts_back != Some(floor_s) {
                    cx.violation("rfc2822 timestamp print->parse", case, || format!("{}", floor_s), || format!("{:?} from {:?}", ts_back, ts_s));
                }
            }
            // a contradictory weekday is rejected (unless relaxed)
            let (wd, rest) = s.split_at(3);
            let other = WD_FULL.iter().map(|w| &w[..3]).find(|w| *w != wd).unwrap();
            let bad = format!("{}{}", other, rest);
            cx.eval(2);
            if let Ok(true) = guard(|| rfc2822::parse(&bad).is_ok()) {
                cx.violation("rfc2822::parse/accepts-contradictory-weekday", case, || "Err".into(), || bad.clone());
            }
            if let Ok(b) = guard(|| rfc2822::DateTimeParser::new().relaxed_weekday(true).parse_zoned(&bad).ok().map(|b| b.timestamp().as_second())) {
                if off % 60 == 0 && b != Some(floor_s) {
                    cx.violation("rfc2822 relaxed_weekday", case, || format!("{}", floor_s), || format!("{:?} from {:?}", b, bad));
                }
            }
        }
    }
}

const OBS_ZONES: [(&str, i32); 10] = [("UT", 0), ("GMT", 0), ("EST", -5), ("EDT", -4), ("CST", -6), ("CDT", -5), ("MST", -7), ("MDT", -6), ("PST", -8), ("PDT", -7)];

fn check_2822_obsolete(cx: &mut Ctx, r: &mut Rng) {
    let day = r.range(cal::days_from_civil(1900, 1, 1), cal::days_from_civil(2100, 1, 1));
    let sec = r.range(0, 86399);
    let (name, hours) = *r.pick(&OBS_ZONES);
    let (y, m, d) = cal::civil_from_days(day);
    let wd = &WD_FULL[(cal::weekday_from_days(day) % 7) as usize][..3];
    let s = format!("{}, {} {} {} {:02}:{:02}:{:02} {}", wd, d, MON3[(m - 1) as usize], y, sec / 3600, sec / 60 % 60, sec % 60, name);
    let exp = day * 86400 + sec - hours as i64 * 3600;
    cx.eval(1);
    match guard(|| rfc2822::parse(&s).ok().map(|b| (b.timestamp().as_second(), b.offset().seconds()))) {
        Err(p) => cx.violation(&format!("rfc2822::parse(obsolete zone)/panic@{}", p.loc()), || format!("obs|{}", s), || "no panic".into(), || p.what.clone()),
        Ok(b) => {
            if b != Some((exp, hours * 3600)) {
                cx.violation("rfc2822::parse/obsolete-zone-name", || format!("obs|{}", s), || format!("{:?}", (exp, hours * 3600)), || format!("{:?}", b));
            }
        }
    }
}

pub fn run(cx: &mut Ctx) {
    if let Some(case) = cx.case.clone() {
        return replay(cx, &case);
    }
    let mut r = Rng::new(cx.shard_seed());
    // self-check of the FFI oracle
    if glibc("%Y-%m-%d %H:%M:%S %j %U", Civ { day: 19723, nod: 45_296_000_000_000 }, 0, "UTC").as_deref() != Some("2024-01-01 12:34:56 001 00") {
        cx.inconclusive("glibc strftime FFI self-check failed");
        return;
    }
    // every date: date specifiers (glibc on a stride to bound FFI cost)
    let mut idx = 0u64;
    for day in cal::MIN_DAY..=cal::MAX_DAY {
        idx += 1;
        if !cx.mine(idx / 1024) {
            continue;
        }
        let c = Civ { day, nod: ((idx as i128 * 7_919_000_000_123) % NS_DAY) as i64 };
        check_specs(cx, c, &DATE_SPECS, idx % 4 == 0 || cx.thorough);
        if idx % 64 == 0 {
            cx.nontrivial(hash64(format!("d{}", day).as_bytes()));
        }
    }
    cx.count("dates", (cal::MAX_DAY - cal::MIN_DAY + 1) as u64 / cx.nshards);
    // every second of a day: time specifiers
    for s in 0..86400i64 {
        if !cx.mine(s as u64 / 16) {
            continue;
        }
        let ns = [0i64, 1, 999_999_999, 120_000_000, 123_456_789, 500_000][(s % 6) as usize];
        check_specs(cx, Civ { day: 19800 + s % 7, nod: s * 1_000_000_000 + ns }, &TIME_SPECS, true);
    }
    cx.count("seconds_of_day", 86400 / cx.nshards);
    // flags / widths and the inverse law
    let n = cx.budget(1_500_000, 60_000_000);
    for i in 0..n {
        let c = gen::gen_civ(&mut r);
        check_flags(cx, c, &mut r);
        check_inverse(cx, c, &mut r);
        check_weekday_contradiction(cx, c, &mut r);
        if i % 8 == 0 {
            cx.nontrivial(hash_mix(c.day as u64, c.nod as u64));
        }
    }
    // zoned specifiers and RFC 2822
    let named: Vec<TimeZone> = ["America/New_York", "Europe/London", "Asia/Kolkata", "Australia/Lord_Howe", "Africa/Monrovia", "Pacific/Apia", "UTC"].iter().filter_map(|n| TimeZone::get(n).ok()).collect();
    let n = cx.budget(1_000_000, 40_000_000);
    for i in 0..n {
        let t = match r.below(6) {
            0 => MIN_NS + r.below(400_000_000_000_000) as i128,
            1 => MAX_NS - r.below(400_000_000_000_000) as i128,
            2 => r.range(-4_000_000_000, 4_000_000_000) as i128 * 1_000_000_007 % (4_000_000_000 * NS),
            _ => r.range128(MIN_NS, MAX_NS),
        };
        let off = match r.below(5) {
            0 => r.range(-1559, 1559) as i32 * 60,
            1 => *r.pick(&[0, 3600, -3600, 19800, 20700, -12600, 93540, -93540, 86400]),
            2 => r.range(-93599, 93599) as i32,
            _ => r.range(-56, 56) as i32 * 900,
        };
        if i % 5 == 4 && !named.is_empty() {
            check_zoned(cx, t, 0, Some(r.pick(&named)));
        } else {
            check_zoned(cx, t, off, None);
        }
        // RFC 2822 only covers years 0..=9999 in the offset's civil time
        let c = Civ::from_ns(t + off as i128 * NS);
        if c.in_range() && c.ymd().0 >= 0 {
            check_2822(cx, t, off);
        }
        if i % 16 == 0 {
            check_2822_obsolete(cx, &mut r);
        }
    }
    // %Q / %:Q with every zone identifier of the system database (every character class an identifier can have:
    // '+', '-', '_', digits, three components)
    for (i, (name, _)) in crate::zones::system().iter().enumerate() {
        if !cx.mine(i as u64) {
            continue;
        }
        if let Ok(tz) = TimeZone::get(name) {
            if tz.iana_name() == Some(name.as_str()) {
                check_zoned(cx, 1_720_000_000 * NS + 123_456_789, 0, Some(&tz));
                cx.count("zone_identifiers_through_%Q", 1);
            }
        }
    }
    // RFC 2822 at every day boundary of years 1900..2100, to the minute
    let mut k = 0u64;
    for day in cal::days_from_civil(1900, 1, 1)..cal::days_from_civil(2100, 1, 1) {
        k += 1;
        if !cx.mine(k) {
            continue;
        }
        for (sec, off) in [(0i64, 0i32), (86399, 0), (0, 3600), (86340, -3600), (43200, 19800), (60, -34200)] {
            check_2822(cx, (day * 86400 + sec) as i128 * NS, off);
        }
    }
    let sd = Civ { day: cal::days_from_civil(2024, 12, 30) + cx.shard as i64 * 367, nod: 0 };
    cx.sample(|| format!("{:?}: %j %U %W %V %G %u %w = {:?} (glibc {:?})", sd.ymd(), ["%j", "%U", "%W", "%V", "%G", "%u", "%w"].map(|s| model_spec(s, sd).unwrap_or_default()), glibc("%j %U %W %V %G %u %w", sd, 0, "UTC")));
    let _ = date_of_day;
}

fn replay(cx: &mut Ctx, case: &str) {
    let p: Vec<&str> = case.splitn(4, '|').collect();
    let n = |i: usize| p.get(i).and_then(|x| x.parse::<i128>().ok()).unwrap_or(0);
    match p[0] {
        "spec" => {
            let c = Civ { day: n(1) as i64, nod: n(2) as i64 };
            check_specs(cx, c, &DATE_SPECS, true);
            check_specs(cx, c, &TIME_SPECS, true);
        }
        "flag" | "inv" | "wd" => {
            let c = Civ { day: n(1) as i64, nod: n(2) as i64 };
            for s in 0..400 {
                let mut r = Rng::new(s);
                check_flags(cx, c, &mut r);
                check_inverse(cx, c, &mut r);
                check_weekday_contradiction(cx, c, &mut r);
            }
        }
        "zoned" => {
            let name = p.get(3).copied().unwrap_or("");
            let tz = if name.is_empty() { None } else { TimeZone::get(name).ok() };
            check_zoned(cx, n(1), n(2) as i32, tz.as_ref());
        }
        "2822" => check_2822(cx, n(1), n(2) as i32),
        _ => cx.inconclusive("bad case"),
    }
    println!("replay {}: evaluations={} violations={}", case, cx.evals, cx.viol_total);
}

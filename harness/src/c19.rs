//! C19 — time zone database lookups are coherent under caching, refresh and
//! concurrency. The harness owns a scratch zoneinfo tree / concatenated file
//! in which every write stores a fixed-offset zone whose offset identifies
//! the write, drives the real database code through histories (virtual clock
//! and event counters from jiff::__verif), and judges every lookup against a
//! bounded-staleness specification; concurrent histories are recorded at the
//! client boundary and checked afterwards.

use crate::rep::{guard, Ctx};
use crate::rng::{hash64, hash_mix, Rng};
use jiff::tz::{TimeZone, TimeZoneDatabase};
use jiff::Timestamp;
use std::collections::{BTreeMap, BTreeSet};
use std::path::PathBuf;
use std::sync::atomic::{AtomicBool, AtomicU64, Ordering};
use std::sync::{Arc, Mutex};
use std::time::{Duration, SystemTime};

#[cfg(jiff_verif)]
use jiff::__verif as hooks;

pub const TTL: u64 = 300; // seconds, DEFAULT_TTL of both back-ends
// (the third name is a prefix of the first: lookups of one must never be answered with the other)
const NAMES: [&str; 3] = ["Zed/Alpha", "Zed/Beta", "Zed/Al"];

#[derive(Clone, Copy, PartialEq, Eq, Debug)]
pub enum Backend {
    Dir,
    Concat,
}

fn zone_bytes(k: i32) -> Vec<u8> {
    crate::c17::build_tzif(b'2', &[], &[], &[(k, 0, 0)], b"VER\0", &[], &[], b"", false)
}
fn k_of(name_idx: usize, version: u32) -> i32 {
    -90_000 + name_idx as i32 * 60_000 + (version % 59_000) as i32
}
fn name_idx_of_k(k: i32) -> usize {
    ((k + 90_000) / 60_000) as usize
}

/// The scratch database on disk. All writes are atomic (temp + rename) and set a modification time never used before.
pub struct World {
    root: PathBuf,
    backend: Backend,
    pub disk: [Option<i32>; 3],
    version: [u32; 3],
    mtime: u64,
    /// mtime of the container (Concat) — changes with every write
    pub container_gen: u64,
}

impl World {
    pub fn new(root: &str, backend: Backend) -> World {
        // memory-backed scratch space when available: the histories are dominated by small file operations
        let shm = std::path::Path::new("/dev/shm");
        let root = if !cfg!(miri) && shm.is_dir() && std::fs::create_dir_all(shm.join(format!("jv-c19-{}", std::process::id()))).is_ok() {
            shm.join(format!("jv-c19-{}", std::process::id())).join(std::path::Path::new(root).file_name().unwrap_or_default())
        } else {
            // (-Zmiri-many-seeds runs the same shard several times in parallel: every run needs its own tree)
            let unique = std::time::SystemTime::now().duration_since(SystemTime::UNIX_EPOCH).map(|d| d.as_nanos()).unwrap_or(0);
            PathBuf::from(format!("{}-{}", root, unique))
        };
        let _ = std::fs::remove_dir_all(&root);
        let _ = std::fs::create_dir_all(root.join("zoneinfo/Zed"));
        World { root, backend, disk: [None; 3], version: [0; 3], mtime: 1_000_000_000, container_gen: 0 }
    }
    pub fn db_path(&self) -> PathBuf {
        match self.backend {
            Backend::Dir => self.root.join("zoneinfo"),
            Backend::Concat => self.root.join("tzdata"),
        }
    }
    pub fn open(&self) -> Result<TimeZoneDatabase, String> {
        match self.backend {
            Backend::Dir => TimeZoneDatabase::from_dir(self.db_path()).map_err(|e| e.to_string()),
            Backend::Concat => TimeZoneDatabase::from_concatenated_path(self.db_path()).map_err(|e| e.to_string()),
        }
    }
    fn put(&mut self, path: PathBuf, bytes: &[u8]) -> std::io::Result<()> {
        self.mtime += 7;
        // every write gets a modification time that no earlier write had, alternately later and *earlier* than the
        // time before (files restored from a backup, cp -p, rsync -t: a changed file need not look newer)
        // ... and most of them differ from their neighbours by a tenth of a second only (sub-second resolution matters)
        let k = (self.mtime - 1_000_000_000) / 7; // 1, 2, 3, ...
        let tenths = k * if k % 5 == 0 { 37 } else { 1 };
        let base = Duration::from_secs(1_000_000_000);
        let delta = Duration::from_millis(tenths * 100);
        let stamp = if k % 2 == 0 { base + delta } else { base - delta };
        let tmp = self.root.join(format!(".tmp-{}", self.mtime));
        std::fs::write(&tmp, bytes)?;
        if !cfg!(miri) {
            // (Miri has no futimens: under Miri the files keep their real modification times and the staleness
            // oracle is switched off; Miri judges memory safety and data races only)
            let f = std::fs::File::options().write(true).open(&tmp)?;
            f.set_modified(SystemTime::UNIX_EPOCH + stamp)?;
            drop(f);
        }
        std::fs::rename(&tmp, &path)
    }
    fn sync_container(&mut self) -> std::io::Result<()> {
        let zones: Vec<(String, Vec<u8>)> = (0..3).filter_map(|i| self.disk[i].map(|k| (NAMES[i].to_string(), zone_bytes(k)))).collect();
        let bytes = crate::concat::pack("2025b", &zones);
        self.container_gen += 1;
        self.put(self.root.join("tzdata"), &bytes)
    }
    /// create or replace zone i with a fresh unique version
    pub fn write(&mut self, i: usize) -> std::io::Result<i32> {
        self.version[i] += 1;
        let k = k_of(i, self.version[i]);
        self.disk[i] = Some(k);
        match self.backend {
            Backend::Dir => self.put(self.root.join("zoneinfo").join(NAMES[i]), &zone_bytes(k))?,
            Backend::Concat => self.sync_container()?,
        }
        Ok(k)
    }
    pub fn remove(&mut self, i: usize) -> std::io::Result<()> {
        if self.disk[i].is_none() {
            return Ok(());
        }
        self.disk[i] = None;
        match self.backend {
            Backend::Dir => std::fs::remove_file(self.root.join("zoneinfo").join(NAMES[i])),
            Backend::Concat => self.sync_container(),
        }
    }
}

/// What a lookup observed: Some(k) for a zone with fixed offset k, None for "not found".
fn observe(db: &TimeZoneDatabase, query: &str) -> Result<(Option<i32>, Option<String>), String> {
    match db.get(query) {
        Err(_) => Ok((None, None)),
        Ok(tz) => {
            let probes = [Timestamp::UNIX_EPOCH, Timestamp::MIN, Timestamp::MAX, Timestamp::new(1_700_000_000, 5).unwrap()];
            let k = tz.to_offset(probes[0]).seconds();
            for p in probes {
                if tz.to_offset(p).seconds() != k {
                    return Err(format!("torn zone: offset {} at the epoch, {} at {}", k, tz.to_offset(p).seconds(), p));
                }
            }
            if tz.to_offset_info(probes[0]).abbreviation() != "VER" {
                return Err(format!("torn zone: abbreviation {:?}", tz.to_offset_info(probes[0]).abbreviation()));
            }
            if tz.following(Timestamp::MIN).next().is_some() {
                return Err("torn zone: has transitions".into());
            }
            Ok((Some(k), tz.iana_name().map(|s| s.to_string())))
        }
    }
}

#[derive(Clone, Copy, Debug, PartialEq, Eq)]
pub enum Op {
    Get(usize, u8), // name index, case variant
    Reset,
    Write(usize),
    Remove(usize),
    Advance(u64),
    Available,
}

fn spelled(i: usize, variant: u8) -> String {
    match variant {
        0 => NAMES[i].to_string(),
        1 => NAMES[i].to_ascii_uppercase(),
        2 => NAMES[i].to_ascii_lowercase(),
        _ => NAMES[i].chars().enumerate().map(|(j, c)| if j % 2 == 0 { c.to_ascii_uppercase() } else { c.to_ascii_lowercase() }).collect(),
    }
}

fn op_str(op: &Op) -> String {
    match op {
        Op::Get(i, v) => format!("g{}{}", i, v),
        Op::Reset => "r".into(),
        Op::Write(i) => format!("w{}", i),
        Op::Remove(i) => format!("x{}", i),
        Op::Advance(s) => format!("a{}", s),
        Op::Available => "v".into(),
    }
}
fn parse_ops(s: &str) -> Vec<Op> {
    s.split(',')
        .filter_map(|t| {
            let b = t.as_bytes();
            let d = |j: usize| (b.get(j).copied().unwrap_or(b'0') - b'0') as usize;
            Some(match *b.first()? {
                b'g' => Op::Get(d(1).min(2), d(2) as u8),
                b'r' => Op::Reset,
                b'w' => Op::Write(d(1).min(2)),
                b'x' => Op::Remove(d(1).min(2)),
                b'a' => Op::Advance(t[1..].parse().ok()?),
                b'v' => Op::Available,
                _ => return None,
            })
        })
        .collect()
}

/// The bounded-staleness specification (sequential): a lookup may be answered from an entry validated at most TTL
/// ago; otherwise it must reflect the disk. The zoneinfo back-end finds files through a names index that is re-read
/// on a miss once it is older than TTL (or after a reset).
struct Model {
    backend: Backend,
    now: u64,
    /// name -> (version returned, validated at, container generation at load)
    cache: BTreeMap<usize, (i32, u64, u64)>,
    index: BTreeSet<usize>,
    index_at: u64,
    index_forced: bool,
    /// a refresh happened while the database was empty (an error state): contents of the index not modelled
    index_unknown: bool,
}

impl Model {
    fn index_fresh(&self) -> bool {
        !self.index_forced && self.now <= self.index_at + TTL
    }
    fn refresh_index(&mut self, disk: &[Option<i32>; 3]) {
        let names: BTreeSet<usize> = (0..3).filter(|&i| disk[i].is_some()).collect();
        if names.is_empty() {
            self.index_unknown = true;
        } else {
            self.index = names;
            self.index_unknown = false;
        }
        self.index_at = self.now;
        self.index_forced = false;
    }
}

#[cfg(jiff_verif)]
fn counts() -> [u64; 15] {
    hooks::counts()
}
#[cfg(not(jiff_verif))]
fn counts() -> [u64; 15] {
    [0; 15]
}

fn run_history(cx: &mut Ctx, world: &mut World, now: &mut u64, ops: &[Op], check_paths: bool) -> bool {
    let backend = world.backend;
    let tag = if backend == Backend::Dir { "zoneinfo" } else { "concatenated" };
    let case = || format!("hist|{}|{}", tag, ops.iter().map(op_str).collect::<Vec<_>>().join(","));
    // initial state: all three zones present, fresh database handle
    for i in 0..3 {
        if world.write(i).is_err() {
            cx.inconclusive("cannot write the scratch database");
            return false;
        }
    }
    let db = match guard(|| world.open()) {
        Ok(Ok(db)) => db,
        Ok(Err(e)) => {
            cx.violation(&format!("{}/cannot-open", tag), case, || "Ok".into(), || e.clone());
            return false;
        }
        Err(p) => {
            cx.violation(&format!("{}/open-panic@{}", tag, p.loc()), case, || "Ok".into(), || p.what.clone());
            return false;
        }
    };
    let mut m = Model { backend, now: *now, cache: BTreeMap::new(), index: (0..3).collect(), index_at: *now, index_forced: false, index_unknown: false };
    let base = if backend == Backend::Dir { 0 } else { 8 };
    for (step, op) in ops.iter().enumerate() {
        match *op {
            Op::Write(i) => {
                let _ = world.write(i);
            }
            Op::Remove(i) => {
                let _ = world.remove(i);
            }
            Op::Advance(s) => {
                #[cfg(jiff_verif)]
                hooks::advance_clock(Duration::from_secs(s));
                *now += s;
                m.now = *now;
            }
            Op::Reset => {
                if let Err(p) = guard(|| db.reset()) {
                    cx.violation(&format!("{}/reset-panic@{}", tag, p.loc()), case, || "no panic".into(), || p.what.clone());
                    return false;
                }
                m.cache.clear();
                m.index.clear();
                m.index_forced = true;
                m.index_unknown = false;
            }
            Op::Available => {
                cx.eval(1);
                let got: BTreeSet<String> = match guard(|| db.available().map(|n| n.as_str().to_string()).collect()) {
                    Ok(g) => g,
                    Err(p) => {
                        cx.violation(&format!("{}/available-panic@{}", tag, p.loc()), case, || "no panic".into(), || p.what.clone());
                        return false;
                    }
                };
                let age = m.now - m.index_at;
                let was_fresh = m.index_fresh();
                if !was_fresh {
                    m.refresh_index(&world.disk);
                }
                let truth: BTreeSet<String> = (0..3).filter(|&i| world.disk[i].is_some()).map(|i| NAMES[i].to_string()).collect();
                let listed: BTreeSet<String> = m.index.iter().map(|&i| NAMES[i].to_string()).collect();
                if m.index_unknown || truth.is_empty() {
                    cx.count("available_after_empty_database_no_verdict", 1);
                } else if got != truth && got != listed {
                    cx.violation(&format!("{}/available", tag), case, || format!("{:?}{}", truth, if was_fresh { format!(" or the list read {} s ago {:?}", age, listed) } else { String::new() }), || format!("{:?} at step {}", got, step));
                    return false;
                }
            }
            Op::Get(i, variant) => {
                cx.eval(1);
                let q = spelled(i, variant);
                let before = counts();
                let obs = match guard(|| observe(&db, &q)) {
                    Ok(Ok(o)) => o,
                    Ok(Err(e)) => {
                        cx.violation(&format!("{}/invalid-zone", tag), case, || "a complete zone".into(), || format!("{} at step {}", e, step));
                        return false;
                    }
                    Err(p) => {
                        cx.violation(&format!("{}/get-panic@{}", tag, p.loc()), case, || "Ok or Err".into(), || p.what.clone());
                        return false;
                    }
                };
                let after = counts();
                let delta = |e: usize| after[base + e] - before[base + e];
                let (got, got_name) = obs;
                let truth = world.disk[i];
                let cached = m.cache.get(&i).copied();
                let fresh = cached.filter(|c| m.now <= c.1 + TTL);
                let mut allowed: Vec<Option<i32>> = vec![truth];
                let mut why = vec!["on disk now".to_string()];
                if let Some(c) = fresh {
                    allowed.push(Some(c.0));
                    why.push(format!("validated {} s ago", m.now - c.1));
                } else if backend == Backend::Dir && !m.index.contains(&i) {
                    // a miss in the names index: it is re-read only when older than TTL (or after a reset)
                    let age = m.now - m.index_at;
                    if !m.index_fresh() {
                        m.refresh_index(&world.disk);
                    }
                    if !m.index.contains(&i) || m.index_unknown {
                        allowed.push(None);
                        why.push(format!("absent from the names index read {} s ago", age));
                    }
                }
                if !allowed.contains(&got) {
                    cx.violation(
                        &format!("{}/lookup-neither-current-nor-allowed-stale", tag),
                        case,
                        || format!("{:?} ({})", allowed, why.join("; ")),
                        || format!("{:?} for {:?} at step {} (virtual time {} s)", got, q, step, m.now),
                    );
                    return false;
                }
                if got.is_some() && got_name.as_deref() != Some(NAMES[i]) {
                    cx.violation(&format!("{}/name-not-canonical", tag), case, || NAMES[i].to_string(), || format!("{:?} for query {:?}", got_name, q));
                    return false;
                }
                // which path must the lookup have taken? (a changed file is re-read, an unchanged one is reused)
                #[cfg(jiff_verif)]
                if check_paths && got.is_some() && got == truth {
                    let gen_now = world.container_gen;
                    // "read" = the file is read again (as a reload of a stale entry or as a new entry: the same thing to a user)
                    let expect: &str = match (fresh, cached) {
                        (Some(_), _) => "fast-hit",
                        (None, Some(c)) if Some(c.0) == truth && (backend == Backend::Dir || c.2 == gen_now) => "revalidate-ok",
                        _ => "read",
                    };
                    let path_events = [hooks::ZONEINFO_FAST_HIT, hooks::ZONEINFO_REVALIDATE_OK, hooks::ZONEINFO_RELOAD, hooks::ZONEINFO_INSERT];
                    let seen: Vec<&str> = path_events.iter().zip(["fast-hit", "revalidate-ok", "read", "read"]).filter(|(e, _)| delta(**e) > 0).map(|(_, n)| n).collect();
                    if seen != [expect] {
                        cx.violation(&format!("{}/cache-path[expected {}]", tag, expect), case, || expect.to_string(), || format!("{:?} at step {}", seen, step));
                        return false;
                    }
                }
                let _ = (check_paths, &delta);
                // model update
                match got {
                    Some(k) => {
                        let served_from_cache = fresh.map_or(false, |c| c.0 == k);
                        if !served_from_cache {
                            m.cache.insert(i, (k, m.now, world.container_gen));
                        }
                    }
                    None => {
                        // (a failed re-read leaves the stale entry in place; it is expired, so it is never served)
                        if fresh.is_none() {
                            m.cache.remove(&i);
                        }
                    }
                }
            }
        }
    }
    true
}

const ALPHABET: [Op; 9] = [Op::Get(0, 0), Op::Get(0, 1), Op::Get(1, 0), Op::Reset, Op::Write(0), Op::Remove(0), Op::Write(1), Op::Advance(200), Op::Advance(301)];

// ---------------------------------------------------------------------------
// concurrent histories

#[derive(Clone, Debug)]
struct Ev {
    thread: u32,
    call: u64,
    ret: u64,
    kind: u8, // 0 get, 1 write, 2 remove, 3 advance, 4 reset
    name: usize,
    value: Option<i32>, // get: observed; write: new version
    secs: u64,
}

static STAMP: AtomicU64 = AtomicU64::new(1);
fn stamp() -> u64 {
    STAMP.fetch_add(1, Ordering::SeqCst)
}

/// stamps at which the zoneinfo names index was re-read (hook event), for the offline checker
static REFRESHES: Mutex<Vec<u64>> = Mutex::new(Vec::new());

static DELAY_SEED: AtomicU64 = AtomicU64::new(0);
fn delay_callback(id: usize) {
    if id == 4 {
        let s = stamp();
        if let Ok(mut v) = REFRESHES.lock() {
            v.push(s);
        }
    }
    // widen the windows between releasing the read lock and taking the write lock
    if id == 6 || id == 7 || id == 14 {
        let s = DELAY_SEED.fetch_add(0x9E37_79B9_7F4A_7C15, Ordering::Relaxed);
        let us = hash_mix(s, id as u64) % 200;
        if us > 20 {
            std::thread::sleep(Duration::from_micros(us));
        } else {
            std::thread::yield_now();
        }
    }
}

fn run_concurrent(cx: &mut Ctx, backend: Backend, round: u64, threads: u32, ops_per_thread: u32, r: &mut Rng) {
    let tag = if backend == Backend::Dir { "zoneinfo" } else { "concatenated" };
    let root = format!("{}/c19-conc-{}-{}", cx.work, cx.shard, tag);
    let mut world = World::new(&root, backend);
    for i in 0..3 {
        let _ = world.write(i);
    }
    let db = match world.open() {
        Ok(db) => Arc::new(db),
        Err(e) => {
            cx.inconclusive(format!("cannot open scratch database: {}", e));
            return;
        }
    };
    let log: Arc<Mutex<Vec<Ev>>> = Arc::new(Mutex::new(Vec::new()));
    let stop = Arc::new(AtomicBool::new(false));
    let done = Arc::new(AtomicU64::new(0));
    // the initial writes, as events at stamp 0
    {
        let mut l = log.lock().unwrap();
        for i in 0..3 {
            l.push(Ev { thread: 999, call: 0, ret: 0, kind: 1, name: i, value: world.disk[i], secs: 0 });
        }
    }
    let case = format!("conc|{}|seed {} shard {} round {} threads {}", tag, cx.seed, cx.shard, round, threads);
    let mut handles = Vec::new();
    for t in 0..threads {
        let db = db.clone();
        let log = log.clone();
        let done = done.clone();
        let seed = r.next();
        handles.push(std::thread::spawn(move || {
            let mut rr = Rng::new(seed);
            let mut local = Vec::with_capacity(ops_per_thread as usize);
            let mut err: Option<String> = None;
            for _ in 0..ops_per_thread {
                let i = rr.below(3) as usize;
                if rr.chance(1, 60) {
                    let c = stamp();
                    let res = std::panic::catch_unwind(std::panic::AssertUnwindSafe(|| db.reset()));
                    let rt = stamp();
                    if res.is_err() {
                        err = Some("reset panicked".into());
                        break;
                    }
                    local.push(Ev { thread: t, call: c, ret: rt, kind: 4, name: 0, value: None, secs: 0 });
                    continue;
                }
                let q = spelled(i, rr.below(4) as u8);
                let c = stamp();
                let res = std::panic::catch_unwind(std::panic::AssertUnwindSafe(|| observe(&db, &q)));
                let rt = stamp();
                match res {
                    Ok(Ok((got, name))) => {
                        if got.is_some() && name.as_deref() != Some(NAMES[i]) {
                            err = Some(format!("query {:?} returned the name {:?}", q, name));
                            break;
                        }
                        local.push(Ev { thread: t, call: c, ret: rt, kind: 0, name: i, value: got, secs: 0 });
                    }
                    Ok(Err(e)) => {
                        err = Some(e);
                        break;
                    }
                    Err(_) => {
                        err = Some(format!("lookup of {:?} panicked", q));
                        break;
                    }
                }
            }
            log.lock().unwrap().extend(local);
            done.fetch_add(1, Ordering::SeqCst);
            err
        }));
    }
    // the mutator (this thread): replaces, removes, re-adds, advances the virtual clock
    let mut mlog: Vec<Ev> = Vec::new();
    let t0 = std::time::Instant::now();
    let mut watchdog = false;
    while done.load(Ordering::SeqCst) < threads as u64 {
        if t0.elapsed() > Duration::from_secs(if cfg!(miri) { 6000 } else { 120 }) {
            watchdog = true;
            break;
        }
        let i = r.below(3) as usize;
        match r.below(10) {
            0..=4 => {
                let c = stamp();
                let k = world.write(i).ok();
                let rt = stamp();
                mlog.push(Ev { thread: 1000, call: c, ret: rt, kind: 1, name: i, value: k, secs: 0 });
            }
            5 | 6 => {
                let c = stamp();
                let _ = world.remove(i);
                let rt = stamp();
                mlog.push(Ev { thread: 1000, call: c, ret: rt, kind: 2, name: i, value: None, secs: 0 });
            }
            _ => {
                let secs = *r.pick(&[1u64, 50, 150, 301, 400]);
                let c = stamp();
                #[cfg(jiff_verif)]
                hooks::advance_clock(Duration::from_secs(secs));
                let rt = stamp();
                mlog.push(Ev { thread: 1000, call: c, ret: rt, kind: 3, name: 0, value: None, secs });
            }
        }
        std::thread::sleep(Duration::from_micros(r.below(300)));
    }
    stop.store(true, Ordering::SeqCst);
    if watchdog && cfg!(miri) {
        cx.inconclusive(format!("{}: watchdog fired under Miri (interpreter too slow on this machine)", case));
        std::process::exit(cx.finish());
    }
    if watchdog {
        // bounded progress: where are the workers?
        let pid = std::process::id();
        let out = std::process::Command::new("gdb").args(["-p", &pid.to_string(), "-batch", "-ex", "thread apply all bt 12"]).output();
        let stacks = out.map(|o| String::from_utf8_lossy(&o.stdout).into_owned()).unwrap_or_default();
        let parked = stacks.matches("jiff::tz::db").count();
        if parked > 0 && (stacks.contains("RwLock") || stacks.contains("futex")) {
            cx.violation(&format!("{}/no-progress-within-120s (threads parked in jiff::tz::db)", tag), || case.clone(), || "all lookups return".into(), || stacks.chars().take(3000).collect());
        } else {
            cx.inconclusive(format!("{}: watchdog fired after 120 s without evidence of a deadlock", case));
        }
        std::process::exit(cx.finish());
    }
    for h in handles {
        match h.join() {
            Ok(None) => {}
            Ok(Some(e)) => cx.violation(&format!("{}/concurrent-lookup-invalid: {}", tag, if e.contains("panicked") { "panicked" } else { e.split(|c: char| c.is_ascii_digit() || c == '"').next().unwrap_or("") }), || case.clone(), || "a complete valid zone under its canonical name, no panic".into(), || e.clone()),
            Err(_) => cx.violation(&format!("{}/worker-panicked", tag), || case.clone(), || "no panic".into(), || "thread panicked".into()),
        }
    }
    let mut evs = log.lock().unwrap().clone();
    evs.extend(mlog);
    if cfg!(miri) {
        cx.count("concurrent_gets_under_miri", evs.iter().filter(|e| e.kind == 0).count() as u64);
        cx.eval(evs.len() as u64);
        cx.nontrivial(hash_mix(round, cx.shard));
        cx.nontrivial(hash_mix(round, cx.shard) ^ 1);
    } else {
        let refreshes: Vec<u64> = REFRESHES.lock().map(|v| v.clone()).unwrap_or_default();
        check_concurrent_history(cx, tag, &case, &evs, &refreshes);
    }
    let _ = std::fs::remove_dir_all(&world.root);
}

/// Offline checker of a recorded concurrent history.
fn check_concurrent_history(cx: &mut Ctx, tag: &str, case: &str, evs: &[Ev], refreshes: &[u64]) {
    // virtual time bounds as a function of the stamp
    let adv: Vec<(u64, u64, u64)> = evs.iter().filter(|e| e.kind == 3).map(|e| (e.call, e.ret, e.secs)).collect();
    let prefix = |mut pts: Vec<(u64, u64)>| -> (Vec<u64>, Vec<u64>) {
        pts.sort();
        let mut acc = 0;
        let keys = pts.iter().map(|p| p.0).collect();
        let sums = pts
            .iter()
            .map(|p| {
                acc += p.1;
                acc
            })
            .collect();
        (keys, sums)
    };
    let (low_k, low_s) = prefix(adv.iter().map(|a| (a.1, a.2)).collect());
    let (high_k, high_s) = prefix(adv.iter().map(|a| (a.0, a.2)).collect());
    let at = |keys: &Vec<u64>, sums: &Vec<u64>, s: u64| -> u64 {
        let n = keys.partition_point(|&k| k <= s);
        if n == 0 {
            0
        } else {
            sums[n - 1]
        }
    };
    let vt_low = |s: u64| at(&low_k, &low_s, s); // advances certainly finished by stamp s
    let vt_high = |s: u64| at(&high_k, &high_s, s); // advances possibly started by stamp s
    // a names-index re-read starts its lease when it *finishes*: that is no later than the return of the lookup it ran in
    let mut by_thread: BTreeMap<u32, Vec<(u64, u64)>> = BTreeMap::new();
    for e in evs.iter().filter(|e| e.kind == 0) {
        by_thread.entry(e.thread).or_default().push((e.call, e.ret));
    }
    for v in by_thread.values_mut() {
        v.sort();
    }
    let leases: Vec<(u64, u64)> = refreshes
        .iter()
        .map(|&e| {
            let mut latest_ret = e;
            for v in by_thread.values() {
                let i = v.partition_point(|x| x.0 <= e);
                if i > 0 && v[i - 1].1 >= e {
                    latest_ret = latest_ret.max(v[i - 1].1);
                }
            }
            (e, vt_high(latest_ret))
        })
        .collect();
    // per name: the sequence of states with [start call, end ret of the next write)
    let mut gets = 0u64;
    let mut order_hash = 0u64;
    for name in 0..3 {
        let mut writes: Vec<&Ev> = evs.iter().filter(|e| (e.kind == 1 || e.kind == 2) && e.name == name).collect();
        writes.sort_by_key(|e| e.call);
        // state j is current from writes[j].call (earliest) until writes[j+1].ret (latest)
        let name_gets: Vec<&Ev> = evs.iter().filter(|e| e.kind == 0 && e.name == name).collect();
        let mut by_value: BTreeMap<Option<i32>, Vec<usize>> = BTreeMap::new();
        for (j, w) in writes.iter().enumerate() {
            by_value.entry(if w.kind == 1 { w.value } else { None }).or_default().push(j);
        }
        let empty: Vec<usize> = Vec::new();
        let mut gets_by_value: BTreeMap<Option<i32>, Vec<&Ev>> = BTreeMap::new();
        for a in &name_gets {
            gets_by_value.entry(a.value).or_default().push(a);
        }
        for g in name_gets.iter().copied() {
            gets += 1;
            cx.eval(1);
            let mut ok = false;
            let mut detail = Vec::new();
            // the states carrying the observed value, latest first (a version is written once; "absent" recurs)
            let cands: &Vec<usize> = by_value.get(&g.value).unwrap_or(&empty);
            for &j in cands.iter().rev() {
                let w = writes[j];
                if detail.len() >= 3 {
                    break; // older states of the same value are staler still
                }
                let start = w.call;
                let end = writes.get(j + 1).map(|n| n.ret).unwrap_or(u64::MAX);
                if start > g.ret {
                    continue; // written after the lookup returned
                }
                // still current at some point after the call, or stale by at most TTL of virtual time
                if end >= g.call {
                    ok = true;
                    break;
                }
                // the least staleness compatible with the recorded stamps (advances overlapping a stamp may or may not have been seen)
                let staleness = vt_low(g.call).saturating_sub(vt_high(end));
                detail.push(staleness);
                if staleness <= TTL {
                    ok = true;
                    break;
                }
                // the entry's time-to-live starts when a lookup finished validating it: any lookup that observed this
                // state and began while it was still current may have (re)started the clock when it returned
                let validated_recently = gets_by_value.get(&g.value).map_or(false, |v| v.iter().any(|a| a.call <= end && a.call <= g.ret && vt_low(g.call).saturating_sub(vt_high(a.ret)) <= TTL));
                if validated_recently {
                    ok = true;
                    break;
                }
                // "not found" can also be the names index speaking: the index is re-read as a whole on a miss of *any*
                // name; a re-read that began while this name was absent keeps it invisible for TTL from then on
                if g.value.is_none() && leases.iter().any(|&(e, lease_vt)| e <= end && e <= g.ret && vt_low(g.call).saturating_sub(lease_vt) <= TTL) {
                    ok = true;
                    break;
                }
            }
            // "not found" may also come from the names index of the zoneinfo back-end: a name that was absent within TTL — covered by the None states above
            if !ok {
                let g2 = g.clone();
                cx.violation(
                    &format!("{}/concurrent-lookup-neither-current-nor-allowed-stale", tag),
                    || case.to_string(),
                    || format!("a state of {} current in [call - TTL, return]", NAMES[name]),
                    || format!("{:?} observed by thread {} between stamps {} and {} (states with that value went stale {:?} virtual seconds earlier)", g2.value, g2.thread, g2.call, g2.ret, detail),
                );
                return;
            }
            if g.value.map_or(false, |k| name_idx_of_k(k) != name) {
                cx.violation(&format!("{}/zone-of-another-name", tag), || case.to_string(), || NAMES[name].to_string(), || format!("{:?}", g.value));
                return;
            }
        }
        // the interleaving actually seen: order of conflicting operations on this name
        let mut conf: Vec<(u64, u8, u32)> = evs.iter().filter(|e| e.name == name && e.kind <= 2).map(|e| (e.call, e.kind, e.thread)).collect();
        conf.sort();
        for c in conf.iter().filter(|c| c.1 != 0).chain(conf.iter().step_by(50)) {
            order_hash = hash_mix(order_hash, hash_mix(c.0, c.2 as u64));
        }
        let mut pattern = 0u64;
        for w in conf.windows(2) {
            pattern = hash_mix(pattern, (w[0].1 as u64) << 8 | w[1].1 as u64 | ((w[0].2 != w[1].2) as u64) << 16);
        }
        cx.nontrivial(hash_mix(pattern, name as u64));
    }
    cx.nontrivial(order_hash);
    cx.count("concurrent_gets_checked", gets);
    cx.count("concurrent_histories", 1);
}

pub fn run(cx: &mut Ctx) {
    #[cfg(not(jiff_verif))]
    {
        cx.inconclusive("built without --cfg jiff_verif: no virtual clock");
        return;
    }
    #[cfg(jiff_verif)]
    {
        hooks::use_virtual_clock();
    }
    let part = cx.opt("part").unwrap_or("all").to_string();
    let mut r = Rng::new(cx.shard_seed());
    let mut now = 0u64;
    // self-check of the unique-version zones
    match TimeZone::tzif("Zed/Alpha", &zone_bytes(k_of(1, 77))) {
        Ok(tz) if tz.to_offset(Timestamp::UNIX_EPOCH).seconds() == k_of(1, 77) => {}
        other => {
            cx.inconclusive(format!("version zone self-check failed: {:?}", other.map(|t| t.to_offset(Timestamp::UNIX_EPOCH))));
            return;
        }
    }
    if let Some(case) = cx.case.clone() {
        let p: Vec<&str> = case.splitn(3, '|').collect();
        if p[0] == "hist" && p.len() == 3 {
            let backend = if p[1] == "zoneinfo" { Backend::Dir } else { Backend::Concat };
            let mut world = World::new(&format!("{}/c19-replay", cx.work), backend);
            let ops = parse_ops(p[2]);
            let ok = run_history(cx, &mut world, &mut now, &ops, true);
            println!("replay {}: {} ops, held={}", case, ops.len(), ok);
        } else {
            cx.inconclusive("concurrent histories are replayed by re-running the shard with the same seed (schedule dependent)");
        }
        return;
    }
    if part == "all" || part == "seq" {
        let len = cx.opt_u64("hist_len", if cx.thorough { 6 } else { 5 }) as u32;
        for backend in [Backend::Dir, Backend::Concat] {
            let mut world = World::new(&format!("{}/c19-seq-{}-{:?}", cx.work, cx.shard, backend), backend);
            let total = (ALPHABET.len() as u64).pow(len);
            let mut bad = 0;
            for h in 0..total {
                if !cx.mine(h) {
                    continue;
                }
                let mut ops = Vec::with_capacity(len as usize);
                let mut x = h;
                for _ in 0..len {
                    ops.push(ALPHABET[(x % ALPHABET.len() as u64) as usize]);
                    x /= ALPHABET.len() as u64;
                }
                if !run_history(cx, &mut world, &mut now, &ops, true) {
                    bad += 1;
                    if bad > 20 {
                        break;
                    }
                }
                if h % 16 == 0 {
                    cx.nontrivial(hash_mix(h, backend as u64));
                }
                cx.count("sequential_histories", 1);
            }
            // seeded long histories over the whole alphabet
            let n = cx.budget(8_000, 400_000);
            for _ in 0..n {
                let l = r.range(8, 40);
                let ops: Vec<Op> = (0..l)
                    .map(|_| match r.below(12) {
                        0..=4 => Op::Get(r.below(3) as usize, r.below(4) as u8),
                        5 => Op::Reset,
                        6 | 7 => Op::Write(r.below(3) as usize),
                        8 => Op::Remove(r.below(3) as usize),
                        9 => Op::Available,
                        _ => Op::Advance(*r.pick(&[1u64, 100, 150, 299, 300, 301, 450, 1000])),
                    })
                    .collect();
                run_history(cx, &mut world, &mut now, &ops, true);
                cx.nontrivial(hash64(ops.iter().map(op_str).collect::<Vec<_>>().join(",").as_bytes()));
                cx.count("sequential_histories", 1);
            }
            let _ = std::fs::remove_dir_all(&world.root);
        }
    }
    if part == "all" || part == "conc" {
        #[cfg(jiff_verif)]
        {
            DELAY_SEED.store(cx.shard_seed(), Ordering::Relaxed);
            hooks::set_callback(delay_callback);
        }
        let rounds = cx.opt_u64("rounds", if cx.thorough { 200 } else { 12 });
        let ops = cx.opt_u64("conc_ops", 2000) as u32;
        for round in 0..rounds {
            let threads = [4u32, 8, 16][(round % 3) as usize];
            let threads = cx.opt_u64("threads", threads as u64) as u32;
            run_concurrent(cx, if round % 4 == 3 { Backend::Concat } else { Backend::Dir }, round, threads, ops, &mut r);
        }
    }
    let _ = std::fs::remove_dir_all(format!("/dev/shm/jv-c19-{}", std::process::id()));
    // which lookup paths were actually driven
    let c = counts();
    let names = ["zoneinfo_fast_hit", "zoneinfo_revalidate_ok", "zoneinfo_reload", "zoneinfo_insert", "zoneinfo_names_refresh", "zoneinfo_reset", "zoneinfo_between_locks", "zoneinfo_names_between_locks", "concatenated_fast_hit", "concatenated_revalidate_ok", "concatenated_reload", "concatenated_insert", "concatenated_names_refresh", "concatenated_reset", "concatenated_between_locks"];
    for (i, n) in names.iter().enumerate() {
        cx.count(&format!("path_{}", n), c[i]);
    }
    cx.sample(|| format!("event counts of this shard: {:?}", names.iter().zip(c.iter()).map(|(n, v)| format!("{}={}", n, v)).collect::<Vec<_>>()));
}

//! C12 — Span and SignedDuration are faithful value types with enforced limits.

use crate::arith::{unit_of, MSpan, LIMITS, UNIT_NAMES};
use crate::gen::{self, sdur_of_ns, SD_MAX_NS, SD_MIN_NS};
use crate::rep::{guard, Ctx};
use crate::rng::{hash64, Rng};
use jiff::{SignedDuration, Span};
use std::time::Duration;

// ---------------------------------------------------------------------------
// Span model: (sign, magnitudes) with the documented sign rule

#[derive(Clone, Debug, PartialEq, Eq)]
struct SpanModel {
    sign: i64,
    mag: [u64; 10],
}

impl SpanModel {
    fn new() -> SpanModel {
        SpanModel { sign: 0, mag: [0; 10] }
    }
    fn is_zero(&self) -> bool {
        self.mag.iter().all(|&m| m == 0)
    }
    /// Ok(()) if accepted, Err(()) if the unit limit refuses the value
    fn set(&mut self, unit: usize, v: i64) -> Result<(), ()> {
        let lim = LIMITS[unit];
        if v == i64::MIN || v.abs() > lim {
            return Err(());
        }
        let was_zero = self.is_zero();
        self.mag[unit] = v.unsigned_abs();
        if v < 0 {
            self.sign = -1;
        } else if self.is_zero() {
            self.sign = 0;
        } else if was_zero {
            self.sign = v.signum();
        }
        Ok(())
    }
    fn get(&self, unit: usize) -> i64 {
        self.sign * self.mag[unit] as i64
    }
    fn to_mspan(&self) -> MSpan {
        let mut m = MSpan::zero();
        for i in 0..10 {
            m.u[i] = self.get(i);
        }
        m
    }
}


/// The units of a span *derived* from another (abs, negate, products, conversions), after checking that the value is
/// coherent as a whole: its sign agrees with its units (a span of zeros is zero, not "positive with nothing in it").
fn coherent_span(bad: &mut Vec<(String, String, String)>, what: &str, s: &Span) -> MSpan {
    let m = MSpan::from_jiff(s);
    let sg = m.u.iter().find(|v| **v != 0).map_or(0, |v| v.signum());
    if s.signum() as i64 != sg || s.is_zero() != (sg == 0) || s.is_positive() != (sg > 0) || s.is_negative() != (sg < 0) {
        bad.push((format!("{}/sign-incoherent-with-units", what), format!("signum {} for {:?}", sg, m.u), format!("signum {} zero={} pos={} neg={}", s.signum(), s.is_zero(), s.is_positive(), s.is_negative())));
    } else if let Ok(copy) = m.to_jiff() {
        if s.fieldwise() != copy.fieldwise() {
            bad.push((format!("{}/not-fieldwise-equal-to-a-span-with-the-same-units", what), format!("{:?}", copy), format!("{:?}", s)));
        }
    }
    m
}

fn try_set(s: Span, unit: usize, v: i64) -> Result<Span, jiff::Error> {
    match unit {
        0 => s.try_nanoseconds(v),
        1 => s.try_microseconds(v),
        2 => s.try_milliseconds(v),
        3 => s.try_seconds(v),
        4 => s.try_minutes(v),
        5 => s.try_hours(v),
        6 => s.try_days(v),
        7 => s.try_weeks(v),
        8 => s.try_months(v),
        _ => s.try_years(v),
    }
}

fn gen_set_value(r: &mut Rng, unit: usize) -> i64 {
    let lim = LIMITS[unit];
    match r.below(14) {
        0 => lim,
        1 => -lim,
        2 => lim - 1,
        3 => -(lim - 1),
        4 => lim.saturating_add(1),
        5 => (-lim).saturating_sub(1),
        6 => 0,
        7 => 1,
        8 => -1,
        9 => i64::MIN,
        10 => i64::MAX,
        11 => r.range(-1000, 1000),
        _ => r.range(-lim, lim),
    }
}

fn check_span_seq(cx: &mut Ctx, ops: &[(usize, i64)], ks: &[i64]) {
    let case = || format!("span:{}:{}", ops.iter().map(|(u, v)| format!("{}={}", u, v)).collect::<Vec<_>>().join(","), ks.iter().map(|k| k.to_string()).collect::<Vec<_>>().join(","));
    let mut model = SpanModel::new();
    let mut span = Span::new();
    for (step, &(unit, v)) in ops.iter().enumerate() {
        let exp = {
            let mut m2 = model.clone();
            m2.set(unit, v).map(|_| m2)
        };
        cx.eval(1);
        let got = guard(|| try_set(span, unit, v));
        match got {
            Err(p) => {
                cx.violation(&format!("Span::try_{}/panic@{}", UNIT_NAMES[unit], p.loc()), case, || "Ok|Err".into(), || p.what.clone());
                return;
            }
            Ok(r) => match (r, exp) {
                (Ok(s), Ok(m)) => {
                    span = s;
                    model = m;
                }
                (Err(_), Err(())) => {
                    // refused: the span is unchanged
                }
                (Ok(s), Err(())) => {
                    cx.violation(&format!("Span::try_{}/limit-not-enforced", UNIT_NAMES[unit]), case, || format!("Err at step {}", step), || format!("{:?}", s));
                    return;
                }
                (Err(e), Ok(_)) => {
                    cx.violation(&format!("Span::try_{}/refuses-value-within-limit", UNIT_NAMES[unit]), case, || format!("Ok at step {}", step), || format!("Err({})", e));
                    return;
                }
            },
        }
        // observe after every step
        let r = guard(|| {
            let mut bad: Vec<(String, String, String)> = Vec::new();
            let got = MSpan::from_jiff(&span);
            let exp = model.to_mspan();
            if got != exp {
                bad.push(("Span::get_*".into(), format!("{:?}", exp.u), format!("{:?}", got.u)));
            }
            let signs: Vec<i64> = got.u.iter().filter(|v| **v != 0).map(|v| v.signum()).collect();
            if signs.iter().any(|s| *s != signs[0]) {
                bad.push(("Span/mixed-signs".into(), "one sign".into(), format!("{:?}", got.u)));
            }
            let sg = if model.is_zero() { 0 } else { model.sign };
            if span.signum() as i64 != sg || span.is_zero() != (sg == 0) || span.is_positive() != (sg > 0) || span.is_negative() != (sg < 0) {
                bad.push(("Span::signum/is_*".into(), format!("{}", sg), format!("{} zero={} pos={} neg={}", span.signum(), span.is_zero(), span.is_positive(), span.is_negative())));
            }
            let neg = coherent_span(&mut bad, "Span::negate", &span.negate());
            if neg != exp.neg() {
                bad.push(("Span::negate".into(), format!("{:?}", exp.neg().u), format!("{:?}", neg.u)));
            }
            let neg2 = coherent_span(&mut bad, "-Span", &(-span));
            if neg2 != exp.neg() {
                bad.push(("-Span".into(), format!("{:?}", exp.neg().u), format!("{:?}", neg2.u)));
            }
            let abs = coherent_span(&mut bad, "Span::abs", &span.abs());
            let mut eabs = exp;
            for v in eabs.u.iter_mut() {
                *v = v.abs();
            }
            if abs != eabs {
                bad.push(("Span::abs".into(), format!("{:?}", eabs.u), format!("{:?}", abs.u)));
            }
            // fieldwise equality: equal to a rebuilt copy, different from any perturbed copy
            if let Ok(copy) = exp.to_jiff() {
                if span.fieldwise() != copy.fieldwise() {
                    bad.push(("Span::fieldwise/eq".into(), "equal to rebuilt copy".into(), format!("{:?} vs {:?}", span, copy)));
                }
                if !exp.is_zero() && span.fieldwise() == copy.negate().fieldwise() {
                    bad.push(("Span::fieldwise/ne".into(), "differs from negation".into(), format!("{:?}", span)));
                }
            }
            // conversion to SignedDuration
            let sd = SignedDuration::try_from(span).ok().map(|d| d.as_nanos());
            let esd = if exp.has_calendar() { None } else { Some(exp.time_ns()) };
            if sd != esd {
                bad.push(("SignedDuration::try_from(Span)".into(), format!("{:?}", esd), format!("{:?}", sd)));
            }
            let ud = Duration::try_from(span).ok().map(|d| d.as_nanos() as i128);
            let eud = esd.filter(|v| *v >= 0);
            if ud != eud {
                bad.push(("Duration::try_from(Span)".into(), format!("{:?}", eud), format!("{:?}", ud)));
            }
            bad
        });
        cx.eval(8);
        match r {
            Err(p) => {
                cx.violation(&format!("Span observers/panic@{}", p.loc()), case, || "no panic".into(), || p.what.clone());
                return;
            }
            Ok(bad) => {
                for (c, e, g) in bad {
                    cx.violation(&c, case, || e.clone(), || g.clone());
                }
            }
        }
    }
    // checked_mul
    let exp = model.to_mspan();
    for &k in ks {
        let mut em = Some(MSpan::zero());
        for i in 0..10 {
            let p = exp.u[i] as i128 * k as i128;
            if p.abs() > LIMITS[i] as i128 {
                em = None;
                break;
            }
            if let Some(m) = em.as_mut() {
                m.u[i] = p as i64;
            }
        }
        cx.eval(1);
        match guard(|| {
            span.checked_mul(k).ok().map(|s| {
                let mut b = Vec::new();
                let m = coherent_span(&mut b, "Span::checked_mul", &s);
                (m, b)
            })
        })
        .map(|o| {
            o.map(|(m, b)| {
                for (c, e, g) in b {
                    cx.violation(&c, case, || e.clone(), || format!("{} (k={})", g, k));
                }
                m
            })
        }) {
            Err(p) => cx.violation(&format!("Span::checked_mul/panic@{}", p.loc()), case, || format!("{:?}", em), || p.what.clone()),
            Ok(g) => {
                if g != em {
                    cx.violation("Span::checked_mul", case, || format!("k={} {:?}", k, em.map(|m| m.u)), || format!("{:?}", g.map(|m| m.u)));
                }
            }
        }
    }
    if ops.len() >= 2 {
        cx.nontrivial(hash64(case().as_bytes()));
    }
}

// ---------------------------------------------------------------------------
// SignedDuration

fn in_sd(v: i128) -> bool {
    (SD_MIN_NS..=SD_MAX_NS).contains(&v)
}

fn sd_ns(d: SignedDuration) -> i128 {
    d.as_secs() as i128 * 1_000_000_000 + d.subsec_nanos() as i128
}

fn coherent(d: SignedDuration) -> bool {
    let (s, n) = (d.as_secs(), d.subsec_nanos());
    n.abs() < 1_000_000_000 && !(s > 0 && n < 0) && !(s < 0 && n > 0)
}

macro_rules! sdchk {
    ($cx:expr, $bad:ident, $name:expr, $exp:expr, $got:expr) => {{
        let e = $exp;
        let g = $got;
        if e != g {
            $bad.push(($name.to_string(), format!("{:?}", e), format!("{:?}", g)));
        }
    }};
}

fn check_sd_pair(cx: &mut Ctx, a: i128, b: i128, k: i32) {
    let case = || format!("sd:{}:{}:{}", a, b, k);
    let (da, db) = (sdur_of_ns(a), sdur_of_ns(b));
    cx.eval(30);
    let r = guard(|| {
        let mut bad: Vec<(String, String, String)> = Vec::new();
        sdchk!(cx, bad, "SignedDuration::new/value", a, sd_ns(da));
        sdchk!(cx, bad, "SignedDuration/coherent-signs", true, coherent(da));
        sdchk!(cx, bad, "as_secs", (a / 1_000_000_000) as i64, da.as_secs());
        sdchk!(cx, bad, "subsec_nanos", (a % 1_000_000_000) as i32, da.subsec_nanos());
        sdchk!(cx, bad, "subsec_micros", (a % 1_000_000_000 / 1_000) as i32, da.subsec_micros());
        sdchk!(cx, bad, "subsec_millis", (a % 1_000_000_000 / 1_000_000) as i32, da.subsec_millis());
        sdchk!(cx, bad, "as_nanos", a, da.as_nanos());
        sdchk!(cx, bad, "as_micros", a / 1_000, da.as_micros());
        sdchk!(cx, bad, "as_millis", a / 1_000_000, da.as_millis());
        sdchk!(cx, bad, "as_mins", (a / 60_000_000_000) as i64, da.as_mins());
        sdchk!(cx, bad, "as_hours", (a / 3_600_000_000_000) as i64, da.as_hours());
        sdchk!(cx, bad, "signum", a.signum() as i8, da.signum());
        sdchk!(cx, bad, "is_zero/positive/negative", (a == 0, a > 0, a < 0), (da.is_zero(), da.is_positive(), da.is_negative()));
        let opt = |v: i128| if in_sd(v) { Some(v) } else { None };
        sdchk!(cx, bad, "checked_add", opt(a + b), da.checked_add(db).map(sd_ns));
        sdchk!(cx, bad, "checked_sub", opt(a - b), da.checked_sub(db).map(sd_ns));
        sdchk!(cx, bad, "saturating_add", (a + b).clamp(SD_MIN_NS, SD_MAX_NS), sd_ns(da.saturating_add(db)));
        sdchk!(cx, bad, "saturating_sub", (a - b).clamp(SD_MIN_NS, SD_MAX_NS), sd_ns(da.saturating_sub(db)));
        sdchk!(cx, bad, "checked_mul", opt(a * k as i128), da.checked_mul(k).map(sd_ns));
        sdchk!(cx, bad, "saturating_mul", (a * k as i128).clamp(SD_MIN_NS, SD_MAX_NS), sd_ns(da.saturating_mul(k)));
        let ediv = if k == 0 { None } else { opt(a / k as i128) };
        sdchk!(cx, bad, "checked_div", ediv, da.checked_div(k).map(sd_ns));
        sdchk!(cx, bad, "checked_neg", opt(-a), da.checked_neg().map(sd_ns));
        sdchk!(cx, bad, "unsigned_abs", a.unsigned_abs(), da.unsigned_abs().as_nanos());
        if in_sd(a.abs()) {
            sdchk!(cx, bad, "abs", a.abs(), sd_ns(da.abs()));
        }
        sdchk!(cx, bad, "Duration::try_from(SignedDuration)", if a >= 0 { Some(a as u128) } else { None }, Duration::try_from(da).ok().map(|d| d.as_nanos()));
        sdchk!(cx, bad, "Ord", a.cmp(&b), da.cmp(&db));
        // results must themselves be coherent
        for x in [da.checked_add(db), da.checked_sub(db), da.checked_mul(k), da.checked_div(k), da.checked_neg()].into_iter().flatten() {
            sdchk!(cx, bad, "result/coherent-signs", true, coherent(x));
        }
        // Span conversion
        let es = if (a / 1_000_000_000).abs() <= LIMITS[crate::arith::SEC] as i128 { Some(a) } else { None };
        let gs = Span::try_from(da).ok().map(|s| MSpan::from_jiff(&s).time_ns());
        sdchk!(cx, bad, "Span::try_from(SignedDuration)", es, gs);
        // floats (value within a relative tolerance)
        let f = da.as_secs_f64();
        let ef = a as f64 / 1e9;
        if (f - ef).abs() > ef.abs() * 1e-15 + 1e-18 {
            bad.push(("as_secs_f64".into(), format!("{}", ef), format!("{}", f)));
        }
        let fm = da.as_millis_f64();
        let efm = a as f64 / 1e6;
        if (fm - efm).abs() > efm.abs() * 1e-15 + 1e-15 {
            bad.push(("as_millis_f64".into(), format!("{}", efm), format!("{}", fm)));
        }
        if b != 0 {
            let q = da.div_duration_f64(db);
            let eq = a as f64 / b as f64;
            if (q - eq).abs() > eq.abs() * 1e-14 + 1e-300 {
                bad.push(("div_duration_f64".into(), format!("{}", eq), format!("{}", q)));
            }
        }
        bad
    });
    match r {
        Err(p) => cx.violation(&format!("SignedDuration ops/panic@{}", p.loc()), case, || "no panic".into(), || p.what.clone()),
        Ok(bad) => {
            for (c, e, g) in bad {
                cx.violation(&format!("SignedDuration::{}", c), case, || e.clone(), || g.clone());
            }
        }
    }
}

/// Unit constructors: Ok exactly when representable (they panic otherwise, by contract).
fn check_sd_ctor(cx: &mut Ctx, which: u8, v: i64, nanos: i32) {
    let case = || format!("sdctor:{}:{}:{}", which, v, nanos);
    let (exp, name): (i128, &str) = match which {
        0 => (v as i128 * 1_000_000_000, "from_secs"),
        1 => (v as i128 * 1_000_000, "from_millis"),
        2 => (v as i128 * 1_000, "from_micros"),
        3 => (v as i128, "from_nanos"),
        4 => (v as i128 * 3_600_000_000_000, "from_hours"),
        5 => (v as i128 * 60_000_000_000, "from_mins"),
        _ => (v as i128 * 1_000_000_000 + nanos as i128, "new"),
    };
    let exp = if in_sd(exp) { Some(exp) } else { None };
    cx.eval(1);
    let got = guard(|| match which {
        0 => SignedDuration::from_secs(v),
        1 => SignedDuration::from_millis(v),
        2 => SignedDuration::from_micros(v),
        3 => SignedDuration::from_nanos(v),
        4 => SignedDuration::from_hours(v),
        5 => SignedDuration::from_mins(v),
        _ => SignedDuration::new(v, nanos),
    });
    match (got, exp) {
        (Ok(d), Some(e)) => {
            if sd_ns(d) != e || !coherent(d) {
                cx.violation(&format!("SignedDuration::{}/value", name), case, || format!("{}", e), || format!("{:?}", d));
            }
        }
        (Err(_), None) => {} // documented panic on overflow
        (Ok(d), None) => cx.violation(&format!("SignedDuration::{}/overflow-not-reported", name), case, || "panic (unrepresentable)".into(), || format!("{:?}", d)),
        (Err(p), Some(e)) => cx.violation(&format!("SignedDuration::{}/spurious-overflow", name), case, || format!("{}", e), || p.what.clone()),
    }
}

/// exact value of a finite f64 in nanoseconds: (floor, has_fraction), or
/// None if |value| is astronomically large
fn exact_ns(x: f64) -> Option<(i128, bool)> {
    if x == 0.0 {
        return Some((0, false));
    }
    let bits = x.to_bits();
    let neg = bits >> 63 != 0;
    let e = ((bits >> 52) & 0x7ff) as i32;
    let frac = bits & ((1u64 << 52) - 1);
    let (m, exp) = if e == 0 { (frac, -1074) } else { (frac | (1u64 << 52), e - 1075) };
    // value = m * 2^exp seconds = m * 10^9 * 2^exp ns
    let p = m as i128 * 1_000_000_000;
    let (fl, fr) = if exp >= 0 {
        if exp > 40 {
            return None;
        }
        (p << exp, false)
    } else {
        let s = -exp;
        if s >= 126 {
            (0, true)
        } else {
            (p >> s, (p & ((1i128 << s) - 1)) != 0)
        }
    };
    // fl = floor of |value|
    if neg {
        // floor of negative = -(ceil of abs)
        Some((if fr { -fl - 1 } else { -fl }, fr))
    } else {
        Some((fl, fr))
    }
}

fn check_float(cx: &mut Ctx, x: f64, is32: bool) {
    let case = || format!("float:{}:{:016x}", if is32 { 32 } else { 64 }, x.to_bits());
    let name = if is32 { "try_from_secs_f32" } else { "try_from_secs_f64" };
    cx.eval(2);
    let got = guard(|| if is32 { SignedDuration::try_from_secs_f32(x as f32) } else { SignedDuration::try_from_secs_f64(x) }.ok().map(sd_ns));
    let got = match got {
        Ok(g) => g,
        Err(p) => {
            cx.violation(&format!("SignedDuration::{}/panic@{}", name, p.loc()), case, || "Ok|Err".into(), || p.what.clone());
            return;
        }
    };
    if !x.is_finite() {
        if got.is_some() {
            cx.violation(&format!("SignedDuration::{}/non-finite-accepted", name), case, || "Err".into(), || format!("{:?}", got));
        }
        return;
    }
    match exact_ns(x) {
        None => {
            if got.is_some() {
                cx.violation(&format!("SignedDuration::{}/overflow-not-reported", name), case, || "Err".into(), || format!("{:?}", got));
            }
        }
        Some((fl, frac)) => {
            let ceil = if frac { fl + 1 } else { fl };
            if fl > SD_MAX_NS || ceil < SD_MIN_NS {
                // strictly outside the representable range
                if got.is_some() {
                    cx.violation(&format!("SignedDuration::{}/overflow-not-reported", name), case, || format!("Err (exact value {} ns is unrepresentable)", fl), || format!("{:?}", got));
                }
            } else if fl >= SD_MIN_NS && ceil <= SD_MAX_NS {
                match got {
                    None => cx.violation(&format!("SignedDuration::{}/spurious-overflow", name), case, || format!("about {} ns", fl), || "Err".into()),
                    Some(g) => {
                        // within 1 ns of the exact value; the f32 variant
                        // computes the fraction in single precision (its
                        // documentation shows the loss), so it gets the
                        // tolerance of an f32 significand
                        let tol: i128 = if is32 { 1 + 256 + (fl.abs() >> 22) } else { 1 };
                        if g < fl - tol || g > ceil + tol {
                            cx.violation(&format!("SignedDuration::{}/value", name), case, || format!("within 1ns of [{}, {}]", fl, ceil), || format!("{}", g));
                        }
                    }
                }
            }
        }
    }
    // the panicking variants agree with the fallible ones
    let pg = guard(|| if is32 { SignedDuration::from_secs_f32(x as f32) } else { SignedDuration::from_secs_f64(x) }).ok().map(sd_ns);
    if pg != got {
        cx.violation(&format!("SignedDuration::from_secs_f{}/disagrees-with-try", if is32 { 32 } else { 64 }), case, || format!("{:?}", got), || format!("{:?}", pg));
    }
}

fn check_mul_f64(cx: &mut Ctx, a: i128, f: f64) {
    let case = || format!("mulf:{}:{:016x}", a, f.to_bits());
    let d = sdur_of_ns(a);
    let exact = a as f64 * f;
    cx.eval(2);
    let in_range = exact.is_finite() && exact.abs() < 9.2e27;
    let r = guard(|| sd_ns(d.mul_f64(f)));
    match r {
        Ok(g) => {
            if !exact.is_finite() || exact.abs() > 9.3e27 {
                cx.violation("SignedDuration::mul_f64/overflow-not-reported", case, || "panic".into(), || format!("{}", g));
            } else if ((g as f64) - exact).abs() > exact.abs() * 1e-14 + 2.0 {
                cx.violation("SignedDuration::mul_f64/value", case, || format!("{}", exact), || format!("{}", g));
            }
        }
        Err(p) => {
            if in_range && exact.abs() < 9.1e27 {
                cx.violation(&format!("SignedDuration::mul_f64/panic@{}", p.loc()), case, || format!("{}", exact), || p.what.clone());
            }
        }
    }
    if f != 0.0 && f.is_finite() {
        let exact = a as f64 / f;
        match guard(|| sd_ns(d.div_f64(f))) {
            Ok(g) => {
                if exact.is_finite() && exact.abs() < 9.1e27 && ((g as f64) - exact).abs() > exact.abs() * 1e-14 + 2.0 {
                    cx.violation("SignedDuration::div_f64/value", case, || format!("{}", exact), || format!("{}", g));
                }
            }
            Err(p) => {
                if exact.is_finite() && exact.abs() < 9.1e27 {
                    cx.violation(&format!("SignedDuration::div_f64/panic@{}", p.loc()), case, || format!("{}", exact), || p.what.clone());
                }
            }
        }
    }
}

fn special_floats() -> Vec<f64> {
    let two63 = 9223372036854775808.0f64;
    let mut v = vec![0.0, -0.0, f64::NAN, f64::INFINITY, f64::NEG_INFINITY, f64::MIN, f64::MAX, f64::MIN_POSITIVE, 5e-324, -5e-324, two63, -two63, f64::from_bits(two63.to_bits() - 1), -f64::from_bits(two63.to_bits() - 1), f64::from_bits(two63.to_bits() + 1), -f64::from_bits(two63.to_bits() + 1), 0.5e-9, 1.5e-9, 2.5e-9, -0.5e-9, -1.5e-9, 0.9999999995, 0.9999999994, -0.9999999995, 1e-9, 1e-10, 4e-10, 6e-10, 12.123456789, -12.123456789, 1e18, -1e18, 9.2e18, 9.3e18, -9.3e18];
    for k in 0..64 {
        v.push((1u64 << k) as f64 + 0.5);
        v.push(-((1u64 << k) as f64) - 0.25);
    }
    v
}

pub fn run(cx: &mut Ctx) {
    if let Some(case) = cx.case.clone() {
        return replay(cx, &case);
    }
    let mut r = Rng::new(cx.shard_seed());
    // Span setter sequences
    let n = cx.budget(15_000_000, 300_000_000);
    for i in 0..n {
        let len = 1 + r.below(4) as usize;
        let ops: Vec<(usize, i64)> = (0..len)
            .map(|_| {
                let u = r.below(10) as usize;
                (u, gen_set_value(&mut r, u))
            })
            .collect();
        let ks = [
            *r.pick(&[0i64, 1, -1, 2, -2, 3, 10, i64::MAX, i64::MIN]),
            r.range(-100, 100),
            {
                // a multiplier that lands a unit exactly on (or one past) its limit
                let (u, v) = ops[0];
                if v != 0 && v != i64::MIN {
                    (LIMITS[u] / v.abs().max(1)).saturating_add(r.range(0, 1))
                } else {
                    7
                }
            },
        ];
        check_span_seq(cx, &ops, &ks);
        if i % 300_000 == 0 {
            cx.sample(|| format!("Span setters {:?} then checked_mul by {:?}", ops.iter().map(|(u, v)| format!("{}={}", UNIT_NAMES[*u], v)).collect::<Vec<_>>(), ks));
        }
    }
    // every unit alone at the interesting values (enumerated)
    if cx.shard == 0 {
        for u in 0..10 {
            let lim = LIMITS[u];
            for v in [lim, -lim, lim - 1, 1 - lim, lim.saturating_add(1), (-lim).saturating_sub(1), 0, 1, -1, i64::MIN, i64::MAX] {
                check_span_seq(cx, &[(u, v)], &[0, 1, -1, 2, i64::MIN, i64::MAX]);
                for u2 in 0..10 {
                    check_span_seq(cx, &[(u, v), (u2, -1)], &[1]);
                    check_span_seq(cx, &[(u, v), (u2, 1), (u, 0)], &[-1]);
                }
            }
        }
        let _ = unit_of(0);
    }
    // SignedDuration pairs
    let n = cx.budget(20_000_000, 400_000_000);
    for i in 0..n {
        let a = gen::gen_sdur_ns(&mut r);
        let b = if r.chance(1, 4) { -a.clamp(SD_MIN_NS + 1, SD_MAX_NS) + r.range(-2, 2) as i128 } else { gen::gen_sdur_ns(&mut r) }.clamp(SD_MIN_NS, SD_MAX_NS);
        let k = match r.below(8) {
            0 => 0,
            1 => i32::MIN,
            2 => i32::MAX,
            3 => -1,
            4 => 1,
            5 => r.range(-10, 10) as i32,
            _ => r.range(i32::MIN as i64, i32::MAX as i64) as i32,
        };
        check_sd_pair(cx, a, b, k);
        if i % 3 == 0 {
            cx.nontrivial(hash64(format!("{}|{}|{}", a, b, k).as_bytes()));
        }
        if i % 8 == 0 {
            let f = match r.below(6) {
                0 => 0.0,
                1 => -1.0,
                2 => r.f64() * 2.0,
                3 => (r.f64() - 0.5) * 1e6,
                4 => 1e-9 * r.f64(),
                _ => f64::from_bits(r.next()),
            };
            if f.is_finite() {
                check_mul_f64(cx, a, f);
            }
        }
    }
    // constructors
    let n = cx.budget(4_000_000, 40_000_000);
    for _ in 0..n {
        let which = r.below(7) as u8;
        let v = match r.below(6) {
            0 => i64::MAX - r.below(3) as i64,
            1 => i64::MIN + r.below(3) as i64,
            2 => r.range(-5, 5),
            3 => (i64::MAX / [1, 1, 1, 1, 3600, 60, 1][which as usize]).saturating_add(r.range(-2, 2)),
            4 => (i64::MIN / [1, 1, 1, 1, 3600, 60, 1][which as usize]).saturating_add(r.range(-2, 2)),
            _ => r.next() as i64,
        };
        let nanos = match r.below(6) {
            0 => i32::MAX,
            1 => i32::MIN,
            2 => 999_999_999,
            3 => -999_999_999,
            4 => *r.pick(&[1_000_000_000, -1_000_000_000, 0, 1, -1]),
            _ => r.range(i32::MIN as i64, i32::MAX as i64) as i32,
        };
        check_sd_ctor(cx, which, v, nanos);
    }
    // floats
    if cx.shard == 0 {
        for x in special_floats() {
            check_float(cx, x, false);
            check_float(cx, (x as f32) as f64, true);
        }
        for x in [f32::MAX, f32::MIN, 9223372036854775808.0f32, -9223372036854775808.0f32, f32::from_bits(9223372036854775808.0f32.to_bits() - 1), f32::from_bits(9223372036854775808.0f32.to_bits() + 1), f32::MIN_POSITIVE, 12.123456789f32] {
            check_float(cx, x as f64, true);
        }
    }
    let n = cx.budget(10_000_000, 200_000_000);
    for _ in 0..n {
        let x = match r.below(6) {
            0 => f64::from_bits(r.next()),
            1 => (r.f64() - 0.5) * 2e19,
            2 => (r.range(-1000, 1000) as f64) + (r.range(0, 2_000_000_000) as f64 + 0.5) * 1e-9 / 2.0,
            3 => r.range(i64::MIN, i64::MAX) as f64,
            4 => (r.f64() - 0.5) * 1e-6,
            _ => (r.f64() - 0.5) * 1e12,
        };
        check_float(cx, x, false);
        check_float(cx, (x as f32) as f64, true);
        cx.nontrivial(x.to_bits());
    }
}

fn replay(cx: &mut Ctx, case: &str) {
    let p: Vec<&str> = case.split(':').collect();
    match p[0] {
        "span" => {
            let ops: Vec<(usize, i64)> = p[1].split(',').filter_map(|x| x.split_once('=')).filter_map(|(u, v)| Some((u.parse().ok()?, v.parse().ok()?))).collect();
            let ks: Vec<i64> = p[2].split(',').filter_map(|x| x.parse().ok()).collect();
            check_span_seq(cx, &ops, &ks);
        }
        "sd" => check_sd_pair(cx, p[1].parse().unwrap_or(0), p[2].parse().unwrap_or(0), p[3].parse().unwrap_or(0)),
        "sdctor" => check_sd_ctor(cx, p[1].parse().unwrap_or(0), p[2].parse().unwrap_or(0), p[3].parse().unwrap_or(0)),
        "float" => check_float(cx, f64::from_bits(u64::from_str_radix(p[2], 16).unwrap_or(0)), p[1] == "32"),
        "mulf" => check_mul_f64(cx, p[1].parse().unwrap_or(0), f64::from_bits(u64::from_str_radix(p[2], 16).unwrap_or(0))),
        _ => cx.inconclusive("bad case"),
    }
    println!("replay {}: evaluations={} violations={}", case, cx.evals, cx.viol_total);
}

//! C08 — civil date/time arithmetic follows the documented calendar rules.

use crate::arith::{self, MSpan, LIMITS};
use crate::cal::{self, Civ, NS_DAY};
use crate::gen::{self, date_of_day, day_of_date, nod_of_time, sdur_of_ns, time_of_nod, udur_of_ns};
use crate::rep::{guard, Ctx};
use crate::rng::{hash64, Rng};
use crate::tzmon::{civ_of, dt_of};
use jiff::civil::{Date, DateTime, Time};

#[derive(Clone, Debug)]
pub enum Operand {
    Span(MSpan),
    /// signed duration, total nanoseconds
    SDur(i128),
    /// unsigned std duration, total nanoseconds
    UDur(u128),
}

impl Operand {
    fn encode(&self) -> String {
        match self {
            Operand::Span(s) => format!("S{}", s.encode()),
            Operand::SDur(n) => format!("D{}", n),
            Operand::UDur(n) => format!("U{}", n),
        }
    }
    fn decode(s: &str) -> Option<Operand> {
        let (k, rest) = s.split_at(1);
        match k {
            "S" => MSpan::decode(rest).map(Operand::Span),
            "D" => rest.parse().ok().map(Operand::SDur),
            "U" => rest.parse().ok().map(Operand::UDur),
            _ => None,
        }
    }
    fn sign(&self) -> i64 {
        match self {
            Operand::Span(s) => s.sign(),
            Operand::SDur(n) => n.signum() as i64,
            Operand::UDur(n) => (*n > 0) as i64,
        }
    }
    fn neg(&self) -> Option<Operand> {
        match self {
            Operand::Span(s) => Some(Operand::Span(s.neg())),
            Operand::SDur(n) => {
                let m = -*n;
                if m > gen::SD_MAX_NS || m < gen::SD_MIN_NS {
                    None
                } else {
                    Some(Operand::SDur(m))
                }
            }
            Operand::UDur(_) => None,
        }
    }
}

fn gen_operand(r: &mut Rng, units: &[usize]) -> Operand {
    match r.below(10) {
        0..=5 => Operand::Span(gen::gen_span(r, units, false)),
        6..=8 => Operand::SDur(gen::gen_sdur_ns(r)),
        _ => Operand::UDur(match r.below(6) {
            0 => 0,
            1 => u64::MAX as u128 * 1_000_000_000 + 999_999_999,
            2 => r.below(200_000_000_000_000) as u128,
            3 => r.below(7_304_500) as u128 * NS_DAY as u128 + r.below(1_000_000_000) as u128,
            4 => (r.below(631_107_417_700) as u128) * 1_000_000_000,
            _ => (((r.next() as u128) << 32) | r.below(1 << 32) as u128).min(u64::MAX as u128 * 1_000_000_000 + 999_999_999),
        }),
    }
}

// ---------------------------------------------------------------------------
// models

fn model_dt_add(c: Civ, op: &Operand, negate: bool) -> Option<Civ> {
    match op {
        Operand::Span(s) => arith::add_datetime(c, &if negate { s.neg() } else { *s }),
        Operand::SDur(n) => {
            let n = if negate { -*n } else { *n };
            Civ::from_ns_checked(c.to_ns() + n).filter(|x| x.in_range())
        }
        Operand::UDur(n) => {
            let n = *n as i128;
            Civ::from_ns_checked(if negate { c.to_ns() - n } else { c.to_ns() + n }).filter(|x| x.in_range())
        }
    }
}

fn model_date_add(day: i64, op: &Operand, negate: bool) -> Option<i64> {
    let in_range = |z: i128| if z >= cal::MIN_DAY as i128 && z <= cal::MAX_DAY as i128 { Some(z as i64) } else { None };
    match op {
        Operand::Span(s) => arith::add_date(day, &if negate { s.neg() } else { *s }),
        Operand::SDur(n) => {
            let n = if negate { -*n } else { *n };
            in_range(day as i128 + n / NS_DAY)
        }
        Operand::UDur(n) => {
            let d = (*n / NS_DAY as u128) as i128;
            in_range(if negate { day as i128 - d } else { day as i128 + d })
        }
    }
}

/// total nanoseconds to add to a clock time (calendar units ignored, as the
/// wrapping API documents)
fn time_delta(op: &Operand, negate: bool) -> i128 {
    let v = match op {
        Operand::Span(s) => s.time_ns(),
        Operand::SDur(n) => *n,
        Operand::UDur(n) => *n as i128,
    };
    if negate {
        -v
    } else {
        v
    }
}

// ---------------------------------------------------------------------------
// jiff calls

macro_rules! with_operand {
    ($op:expr, |$x:ident| $body:expr) => {
        match $op {
            Operand::Span(s) => match s.to_jiff() {
                Ok($x) => Some($body),
                Err(_) => None,
            },
            Operand::SDur(n) => {
                let $x = sdur_of_ns(*n);
                Some($body)
            }
            Operand::UDur(n) => {
                let $x = udur_of_ns(*n);
                Some($body)
            }
        }
    };
}

pub fn check_datetime(cx: &mut Ctx, c: Civ, op: &Operand) {
    let Some(dt) = dt_of(c) else { return };
    let case = || format!("dt|{}|{}|{}", c.day, c.nod, op.encode());
    for negate in [false, true] {
        let exp = model_dt_add(c, op, negate);
        let name = if negate { "sub" } else { "add" };
        let r = guard(|| {
            with_operand!(op, |x| {
                let checked = if negate { dt.checked_sub(x) } else { dt.checked_add(x) }.ok().map(civ_of);
                let sat = civ_of(if negate { dt.saturating_sub(x) } else { dt.saturating_add(x) });
                (checked, sat)
            })
        });
        cx.eval(2);
        match r {
            Err(p) => cx.violation(&format!("DateTime::checked_{}/panic@{}", name, p.loc()), case, || format!("{:?}", exp), || p.what.clone()),
            Ok(None) => {}
            Ok(Some((checked, sat))) => {
                if checked != exp {
                    cx.violation(&format!("DateTime::checked_{}", name), case, || format!("{:?}", exp.map(|e| (e.ymd(), e.hms()))), || format!("{:?}", checked.map(|e| (e.ymd(), e.hms()))));
                }
                let eff_sign = if negate { -op.sign() } else { op.sign() };
                let sat_exp = exp.unwrap_or(if eff_sign < 0 { Civ { day: cal::MIN_DAY, nod: 0 } } else { Civ { day: cal::MAX_DAY, nod: NS_DAY as i64 - 1 } });
                if sat != sat_exp {
                    cx.violation(&format!("DateTime::saturating_{}", name), case, || format!("{:?}", (sat_exp.ymd(), sat_exp.hms())), || format!("{:?}", (sat.ymd(), sat.hms())));
                }
                // operators panic on overflow by contract: only exercised when Ok
                if let Some(e) = exp {
                    let o = guard(|| with_operand!(op, |x| civ_of(if negate { dt - x } else { dt + x })));
                    cx.eval(1);
                    match o {
                        Ok(Some(g)) if g == e => {}
                        Ok(g) => cx.violation(&format!("DateTime {} operator", if negate { "-" } else { "+" }), case, || format!("{:?}", e), || format!("{:?}", g)),
                        Err(p) => cx.violation(&format!("DateTime operator/panic@{}", p.loc()), case, || format!("{:?}", e), || p.what.clone()),
                    }
                }
            }
        }
    }
}

pub fn check_date(cx: &mut Ctx, day: i64, op: &Operand) {
    let d = date_of_day(day);
    let case = || format!("date|{}|{}", day, op.encode());
    for negate in [false, true] {
        let exp = model_date_add(day, op, negate);
        let name = if negate { "sub" } else { "add" };
        let r = guard(|| {
            with_operand!(op, |x| {
                let checked = if negate { d.checked_sub(x) } else { d.checked_add(x) }.ok().map(day_of_date);
                let sat = day_of_date(if negate { d.saturating_sub(x) } else { d.saturating_add(x) });
                (checked, sat)
            })
        });
        cx.eval(2);
        match r {
            Err(p) => cx.violation(&format!("Date::checked_{}/panic@{}", name, p.loc()), case, || format!("{:?}", exp), || p.what.clone()),
            Ok(None) => {}
            Ok(Some((checked, sat))) => {
                if checked != exp {
                    cx.violation(&format!("Date::checked_{}", name), case, || format!("{:?}", exp.map(cal::civil_from_days)), || format!("{:?}", checked.map(cal::civil_from_days)));
                }
                let eff_sign = if negate { -op.sign() } else { op.sign() };
                let sat_exp = exp.unwrap_or(if eff_sign < 0 { cal::MIN_DAY } else { cal::MAX_DAY });
                if sat != sat_exp {
                    cx.violation(&format!("Date::saturating_{}", name), case, || format!("{:?}", cal::civil_from_days(sat_exp)), || format!("{:?}", cal::civil_from_days(sat)));
                }
                if let Some(e) = exp {
                    let o = guard(|| with_operand!(op, |x| day_of_date(if negate { d - x } else { d + x })));
                    cx.eval(1);
                    match o {
                        Ok(Some(g)) if g == e => {}
                        Ok(g) => cx.violation(&format!("Date {} operator", if negate { "-" } else { "+" }), case, || format!("{:?}", e), || format!("{:?}", g)),
                        Err(p) => cx.violation(&format!("Date operator/panic@{}", p.loc()), case, || format!("{:?}", e), || p.what.clone()),
                    }
                }
            }
        }
    }
}

pub fn check_time(cx: &mut Ctx, nod: i64, op: &Operand) {
    let t = time_of_nod(nod);
    let case = || format!("time|{}|{}", nod, op.encode());
    let calendar = matches!(op, Operand::Span(s) if s.has_calendar());
    for negate in [false, true] {
        let delta = time_delta(op, negate);
        let sum = nod as i128 + delta;
        let wrap_exp = sum.rem_euclid(NS_DAY) as i64;
        let checked_exp = if (0..NS_DAY).contains(&sum) { Some(sum as i64) } else { None };
        let name = if negate { "sub" } else { "add" };
        // Known finding D6: jiff sums a span's time units in wrapping 64-bit
        // arithmetic before reducing modulo 24 h. Label exactly those cases.
        let wrap64 = match op {
            Operand::Span(s) => {
                let s = if negate { s.neg() } else { *s };
                let mut acc: i128 = nod as i128;
                let mut over = false;
                for i in (0..=arith::HOUR).rev() {
                    let term = s.u[i] as i128 * arith::UNIT_NS[i];
                    acc += term;
                    if term > i64::MAX as i128 || term < i64::MIN as i128 || acc > i64::MAX as i128 || acc < i64::MIN as i128 {
                        over = true;
                    }
                }
                over
            }
            _ => false,
        };
        let tag = if wrap64 { "[i64-wrap]" } else { "" };
        let r = guard(|| {
            with_operand!(op, |x| {
                let w = nod_of_time(if negate { t.wrapping_sub(x) } else { t.wrapping_add(x) });
                let c = if negate { t.checked_sub(x) } else { t.checked_add(x) }.ok().map(nod_of_time);
                let s = nod_of_time(if negate { t.saturating_sub(x) } else { t.saturating_add(x) });
                let o = nod_of_time(if negate { t - x } else { t + x });
                (w, c, s, o)
            })
        });
        cx.eval(4);
        match r {
            Err(p) => cx.violation(&format!("Time::*_{}/panic@{}", name, p.loc()), case, || format!("wrapping {}", wrap_exp), || p.what.clone()),
            Ok(None) => {}
            Ok(Some((w, c, s, o))) => {
                if w != wrap_exp {
                    cx.violation(&format!("Time::wrapping_{}{}", name, tag), case, || format!("{}", wrap_exp), || format!("{}", w));
                }
                if o != wrap_exp {
                    cx.violation(&format!("Time {} operator (wrapping){}", if negate { "-" } else { "+" }, tag), case, || format!("{}", wrap_exp), || format!("{}", o));
                }
                if calendar {
                    // a span with calendar units is refused by checked
                    // arithmetic; the statement only speaks about the result
                    // leaving the day, so no verdict here
                    cx.count("time_checked_with_calendar_units_no_verdict", 1);
                    continue;
                }
                if c != checked_exp {
                    cx.violation(&format!("Time::checked_{}", name), case, || format!("{:?}", checked_exp), || format!("{:?}", c));
                }
                let sat_exp = checked_exp.unwrap_or(if delta < 0 { 0 } else { NS_DAY as i64 - 1 });
                if s != sat_exp {
                    cx.violation(&format!("Time::saturating_{}", name), case, || format!("{}", sat_exp), || format!("{}", s));
                }
            }
        }
    }
}

/// `start.series(period)`: item k = start + k*period until the first failure.
pub fn check_series(cx: &mut Ctx, c: Civ, period: &MSpan, kind: u8) {
    let case = || format!("series{}|{}|{}|S{}", kind, c.day, c.nod, period.encode());
    let Ok(p) = period.to_jiff() else { return };
    let n_items = 24usize;
    // model
    let mut exp: Vec<i128> = Vec::new();
    for k in 0..n_items as i64 {
        let mut m = MSpan::zero();
        let mut ok = true;
        for i in 0..10 {
            match period.u[i].checked_mul(k) {
                Some(v) if v != i64::MIN && v.abs() <= LIMITS[i] => m.u[i] = v,
                _ => ok = false,
            }
        }
        if !ok {
            break;
        }
        let item = match kind {
            0 => arith::add_date(c.day, &m).map(|d| d as i128),
            1 => arith::add_datetime(c, &m).map(|x| x.to_ns()),
            _ => {
                if m.has_calendar() {
                    None
                } else {
                    let s = c.nod as i128 + m.time_ns();
                    if (0..NS_DAY).contains(&s) {
                        Some(s)
                    } else {
                        None
                    }
                }
            }
        };
        match item {
            Some(v) => exp.push(v),
            None => break,
        }
    }
    let r = guard(|| -> Vec<i128> {
        match kind {
            0 => date_of_day(c.day).series(p).take(n_items).map(|d| day_of_date(d) as i128).collect(),
            1 => dt_of(c).unwrap().series(p).take(n_items).map(|d| civ_of(d).to_ns()).collect(),
            _ => time_of_nod(c.nod).series(p).take(n_items).map(|t| nod_of_time(t) as i128).collect(),
        }
    });
    cx.eval(1);
    let name = ["DateSeries", "DateTimeSeries", "TimeSeries"][kind as usize];
    match r {
        Err(p) => cx.violation(&format!("{}/panic@{}", name, p.loc()), case, || format!("{} items", exp.len()), || p.what.clone()),
        Ok(g) => {
            if kind == 2 && period.has_calendar() {
                return;
            }
            if g != exp {
                cx.violation(name, case, || format!("{:?}", exp), || format!("{:?}", g));
            }
        }
    }
}

pub fn run(cx: &mut Ctx) {
    if let Some(case) = cx.case.clone() {
        return replay(cx, &case);
    }
    let mut r = Rng::new(cx.shard_seed());
    let n = cx.budget(16_000_000, 400_000_000);
    for i in 0..n {
        let c = gen::gen_civ(&mut r);
        match i % 4 {
            0 => {
                let op = gen_operand(&mut r, &gen::ALL_UNITS);
                check_datetime(cx, c, &op);
                nontrivial(cx, &op, c);
            }
            1 => {
                let op = gen_operand(&mut r, &gen::ALL_UNITS);
                check_date(cx, c.day, &op);
                nontrivial(cx, &op, c);
            }
            2 => {
                let op = if r.chance(1, 5) { gen_operand(&mut r, &gen::ALL_UNITS) } else { gen_operand(&mut r, &gen::TIME_UNITS) };
                check_time(cx, c.nod, &op);
                nontrivial(cx, &op, c);
            }
            _ => {
                // aimed cases: the result lands next to a limit or a month end
                let op = aimed(&mut r, c);
                check_datetime(cx, c, &op);
                check_date(cx, c.day, &op);
                if i % 16 == 3 {
                    let p = gen::gen_span(&mut r, &gen::ALL_UNITS, false);
                    check_series(cx, c, &p, (i / 16 % 3) as u8);
                }
            }
        }
        if i % 200_000 == 0 {
            let op = gen_operand(&mut r, &gen::ALL_UNITS);
            cx.sample(|| format!("{:?} {:?} + {} -> {:?}", c.ymd(), c.hms(), op.encode(), model_dt_add(c, &op, false).map(|x| (x.ymd(), x.hms()))));
        }
    }
    // the unit limits themselves, each unit alone, on a few anchors
    if cx.shard == 0 {
        for unit in 0..10 {
            for v in [LIMITS[unit], -LIMITS[unit], LIMITS[unit] - 1, 1, -1] {
                for c in [Civ { day: cal::MIN_DAY, nod: 0 }, Civ { day: cal::MAX_DAY, nod: NS_DAY as i64 - 1 }, Civ { day: 0, nod: 0 }, Civ { day: cal::days_from_civil(2024, 1, 31), nod: 43_200_000_000_000 }] {
                    let op = Operand::Span(MSpan::one(unit, v));
                    check_datetime(cx, c, &op);
                    check_date(cx, c.day, &op);
                    check_time(cx, c.nod, &op);
                }
            }
        }
    }
}

fn nontrivial(cx: &mut Ctx, op: &Operand, c: Civ) {
    // non-trivial: more than one unit, or clamping / carry / overflow involved
    let nt = match op {
        Operand::Span(s) => s.u.iter().filter(|v| **v != 0).count() >= 2 || s.u[arith::MONTH] != 0 || s.u[arith::YEAR] != 0,
        Operand::SDur(n) => n.abs() >= NS_DAY,
        Operand::UDur(n) => *n >= NS_DAY as u128,
    };
    if nt {
        cx.nontrivial(hash64(format!("{}|{}|{}", c.day, c.nod, op.encode()).as_bytes()));
    }
}

/// A span aimed so that the sum lands within a few units of a limit or on a
/// month end needing clamping.
fn aimed(r: &mut Rng, c: Civ) -> Operand {
    match r.below(4) {
        0 => {
            // days to exactly reach / overshoot a limit
            let room = if r.chance(1, 2) { cal::MAX_DAY - c.day } else { cal::MIN_DAY - c.day };
            let mut s = MSpan::one(arith::DAY, (room + r.range(-1, 1)).clamp(-LIMITS[arith::DAY], LIMITS[arith::DAY]));
            if r.chance(1, 2) {
                let sign = if s.sign() < 0 { -1 } else { 1 };
                s.u[arith::NANO] = sign * r.range(0, NS_DAY as i64);
            }
            Operand::Span(s)
        }
        1 => {
            // months/years from a day 29..31
            let mut s = MSpan::zero();
            let sign = if r.chance(1, 2) { 1 } else { -1 };
            s.u[arith::MONTH] = sign * r.range(1, 30);
            if r.chance(1, 2) {
                s.u[arith::YEAR] = sign * r.range(1, 8);
            }
            if r.chance(1, 3) {
                s.u[arith::DAY] = sign * r.range(1, 40);
            }
            Operand::Span(s)
        }
        2 => {
            // hours that carry across midnight by a hair
            let to_midnight = NS_DAY - c.nod as i128;
            let ns = to_midnight + r.range(-2, 2) as i128;
            Operand::SDur(if r.chance(1, 2) { ns } else { -(c.nod as i128) + r.range(-2, 2) as i128 })
        }
        _ => {
            let room_ns = if r.chance(1, 2) { (cal::MAX_DAY as i128 + 1) * NS_DAY - 1 - c.to_ns() } else { cal::MIN_DAY as i128 * NS_DAY - c.to_ns() };
            Operand::SDur((room_ns + r.range(-2, 2) as i128).clamp(gen::SD_MIN_NS, gen::SD_MAX_NS))
        }
    }
}

fn replay(cx: &mut Ctx, case: &str) {
    let p: Vec<&str> = case.split('|').collect();
    let num = |i: usize| p.get(i).and_then(|x| x.parse::<i64>().ok()).unwrap_or(0);
    match p[0] {
        "dt" => {
            if let Some(op) = Operand::decode(p[3]) {
                let c = Civ { day: num(1), nod: num(2) };
                println!("{:?} {:?} op {:?}: model add {:?} sub {:?}", c.ymd(), c.hms(), op, model_dt_add(c, &op, false), model_dt_add(c, &op, true));
                check_datetime(cx, c, &op)
            }
        }
        "date" => {
            if let Some(op) = Operand::decode(p[2]) {
                check_date(cx, num(1), &op)
            }
        }
        "time" => {
            if let Some(op) = Operand::decode(p[2]) {
                check_time(cx, num(1), &op)
            }
        }
        k if k.starts_with("series") => {
            if let Some(Operand::Span(s)) = Operand::decode(p[3]) {
                check_series(cx, Civ { day: num(1), nod: num(2) }, &s, k[6..].parse().unwrap_or(0))
            }
        }
        _ => cx.inconclusive("bad case"),
    }
    let _: Option<(Date, DateTime, Time)> = None;
    println!("replay {}: evaluations={} violations={}", case, cx.evals, cx.viol_total);
}

//! jv: runtime-monitoring harness for the jiff properties C01..C20.
//! One subcommand per property; see /verif/DESIGN.md.
#![allow(clippy::all)]

extern crate alloc;

// The jiff-static copy of src/shared compiled directly into the harness, so
// that the same inputs can be pushed through both copies (C01, C18).
#[allow(dead_code, unused, unexpected_cfgs)]
#[path = "/repo/crates/jiff-static/src/shared/mod.rs"]
pub mod shared;

pub mod arith;
pub mod cal;
pub mod gen;
pub mod json;
pub mod rep;
pub mod rng;
pub mod tzmon;
pub mod tzref;
pub mod zones;

mod c01;
mod c02;
mod c03;
mod c04;
mod c05;
mod c06;
mod c07;
mod c08;
mod c09;
mod c10;
mod c11;
mod c12;
mod c13;
mod c14;
mod c15;
mod c16;
mod c17;
mod concat;
mod c18;
mod c19;
mod c20;
#[cfg(feature = "allocmon")]
mod allocmon;
#[cfg(feature = "allocmon")]
#[global_allocator]
static GLOBAL: allocmon::Mon = allocmon::Mon;
#[cfg(feature = "statictz")]
mod gen_static {
    include!(env!("JV_GEN_STATIC"));
}

fn main() {
    let args: Vec<String> = std::env::args().skip(1).collect();
    if args.is_empty() {
        eprintln!("usage: jv <property|tool> [--tier quick|thorough] [--seed N] [--shard i/n] [--out file] [--case STR]");
        std::process::exit(2);
    }
    rep::install_panic_hook();
    let mut cx = rep::Ctx::from_args(&args);
    let code = match args[0].as_str() {
        "distinct" => {
            distinct(&args[1..]);
            0
        }
        "tzifok" => {
            for p in &args[1..] {
                if let Ok(b) = std::fs::read(p) {
                    if jiff::tz::TimeZone::tzif("X/Y", &b).is_ok() {
                        println!("{}", p);
                    }
                }
            }
            0
        }
        "selfcheck" => match cal::self_check() {
            Ok(n) => {
                println!("cal self-check ok: {} days", n);
                0
            }
            Err(e) => {
                println!("cal self-check FAILED: {}", e);
                2
            }
        },
        name => match prop_fn(name) {
            Some(f) => {
                f(&mut cx);
                cx.finish()
            }
            None => {
                eprintln!("unknown subcommand {}", name);
                2
            }
        },
    };
    std::process::exit(code);
}

fn prop_fn(name: &str) -> Option<fn(&mut rep::Ctx)> {
    Some(match name {
        "c01" => c01::run,
        "c02" => c02::run,
        "c03" => c03::run,
        "c04" => c04::run,
        "c05" => c05::run,
        "c06" => c06::run,
        "c07" => c07::run,
        "c08" => c08::run,
        "c09" => c09::run,
        "c10" => c10::run,
        "c11" => c11::run,
        "c12" => c12::run,
        "c13" => c13::run,
        "c14" => c14::run,
        "c15" => c15::run,
        "c16" => c16::run,
        "c17" => c17::run,
        "c18" => c18::run,
        "c19" => c19::run,
        "c20" => c20::run,
        _ => return None,
    })
}

/// Count the union of sorted u64 hash files (distinct non-trivial cases
/// across shards).
fn distinct(files: &[String]) {
    let mut all: Vec<u64> = Vec::new();
    for f in files {
        if let Ok(b) = std::fs::read(f) {
            for c in b.chunks_exact(8) {
                all.push(u64::from_le_bytes([c[0], c[1], c[2], c[3], c[4], c[5], c[6], c[7]]));
            }
        }
    }
    all.sort_unstable();
    all.dedup();
    println!("{}", all.len());
}

//! C07 — differences are reversible, balanced and sign-consistent for every
//! largest unit.

use crate::arith::{self, unit_of, MSpan, UNIT_NAMES};
use crate::c02::{ts_from_ns, MAX_NS, MIN_NS};
use crate::cal::{self, Civ, NS_DAY};
use crate::gen::{self, date_of_day, day_of_date, nod_of_time, time_of_nod};
use crate::rep::{guard, Ctx, Panicked};
use crate::rng::{hash64, Rng};
use crate::tzmon::{self, civ_of, dt_of};
use crate::zones::{self, ZoneCase};
use jiff::{Span, Zoned};
use std::cmp::Ordering;

const NS: i128 = 1_000_000_000;

/// One type's view of the difference API, over an i128 "key" that orders values.
pub struct Api<'a> {
    pub name: &'a str,
    /// until(a, b, largest) -> Ok(Some(span)) | Ok(None)=Err | panic
    pub until: &'a dyn Fn(i128, i128, Option<usize>) -> Result<Option<Span>, Panicked>,
    pub since: &'a dyn Fn(i128, i128, Option<usize>) -> Result<Option<Span>, Panicked>,
    /// a + span -> key
    pub add: &'a dyn Fn(i128, &Span) -> Option<i128>,
    /// exact nanosecond distance b - a when the type has one
    pub dist: &'a dyn Fn(i128, i128) -> i128,
    pub duration_until: &'a dyn Fn(i128, i128) -> Result<i128, Panicked>,
    pub duration_since: &'a dyn Fn(i128, i128) -> Result<i128, Panicked>,
    pub permitted: &'a dyn Fn(usize) -> bool,
    /// units that may appear in the output for a given largest
    pub zoned_days: bool,
    /// day of month of a value (month/year steps from day 29..31 may clamp)
    pub dom: &'a dyn Fn(i128) -> i64,
    /// does a + span (calendar part) land on a civil time inside a gap or fold?
    pub landing_ambiguous: &'a dyn Fn(i128, &MSpan) -> bool,
}

fn out_units(largest: usize) -> Vec<usize> {
    // weeks only appear when largest == week
    let mut v = Vec::new();
    for u in (0..=largest).rev() {
        if u == arith::WEEK && largest != arith::WEEK {
            continue;
        }
        v.push(u);
    }
    v
}

pub fn check_pair(cx: &mut Ctx, api: &Api, a: i128, b: i128, largest: Option<usize>, case: &dyn Fn() -> String) {
    let lname = largest.map(|l| UNIT_NAMES[l]).unwrap_or("default");
    cx.eval(1);
    let r = (api.until)(a, b, largest);
    let span = match r {
        Err(p) => {
            cx.violation(&format!("{}::until/panic@{}", api.name, p.loc()), || case(), || "Ok|Err".into(), || p.what.clone());
            return;
        }
        Ok(None) => {
            // a difference that does not fit the unit limits of a Span is a documented error
            let d = (api.dist)(a, b);
            let approx_ns: [f64; 10] = [1.0, 1e3, 1e6, 1e9, 6e10, 3.6e12, 8.64e13, 6.048e14, 2.6e15, 3.15e16];
            let l = largest.unwrap_or(if api.zoned_days || api.name == "Timestamp" || api.name == "Time" { arith::HOUR } else { arith::DAY });
            if (d.abs() as f64) >= arith::LIMITS[l] as f64 * approx_ns[l] * 0.98 {
                cx.count("until_err_result_exceeds_span_limits", 1);
                return;
            }
            if api.zoned_days && (a.min(b) < MIN_NS + 3 * NS_DAY || a.max(b) > MAX_NS - 3 * NS_DAY) {
                // at the very edge of the range the intermediate civil datetime of the
                // algorithm may not be a representable instant; no verdict
                cx.count("zoned_until_err_at_range_edge_no_verdict", 1);
                return;
            }
            if let Some(l) = largest {
                if (api.permitted)(l) {
                    // a permitted unit may still fail only through span limits; those do not exist for in-range values
                    cx.violation(&format!("{}::until/err-for-permitted-unit[{}]", api.name, lname), || case(), || "Ok".into(), || "Err".into());
                }
            } else {
                cx.violation(&format!("{}::until/err-with-defaults", api.name), || case(), || "Ok".into(), || "Err".into());
            }
            return;
        }
        Ok(Some(s)) => s,
    };
    if let Some(l) = largest {
        if !(api.permitted)(l) {
            // the statement quantifies over permitted units only
            cx.count("until_with_non_permitted_unit_accepted_no_verdict", 1);
            return;
        }
    }
    let m = MSpan::from_jiff(&span);
    let d = (api.dist)(a, b);
    let sign = d.signum() as i64;
    // 1. reversible
    cx.eval(1);
    match guard(|| (api.add)(a, &span)) {
        Err(p) => cx.violation(&format!("{}::checked_add(until)/panic@{}", api.name, p.loc()), || case(), || "b".into(), || p.what.clone()),
        Ok(g) => {
            if g != Some(b) {
                cx.violation(&format!("{}::until/not-reversible[{}]", api.name, lname), || case(), || format!("a + {} == b ({})", m.show(), b), || format!("{:?}", g));
            }
        }
    }
    // 2. sign consistency
    for i in 0..10 {
        if m.u[i] != 0 && m.u[i].signum() != sign {
            cx.violation(&format!("{}::until/unit-of-wrong-sign[{}]", api.name, lname), || case(), || format!("sign {}", sign), || m.show());
            break;
        }
    }
    // 3. nothing above largest
    let eff_largest = largest.unwrap_or(9);
    for i in (eff_largest + 1)..10 {
        if m.u[i] != 0 {
            cx.violation(&format!("{}::until/unit-above-largest[{}]", api.name, lname), || case(), || format!("zero {}", UNIT_NAMES[i]), || m.show());
        }
    }
    // 4. balanced
    if let Some(l) = largest {
        let lim: [i64; 6] = [1000, 1000, 1000, 60, 60, 24];
        for u in 0..6usize {
            // a time unit is bounded by the next one when that one is permitted
            // (for zoned values a day may be longer than 24 h: behavioural check below)
            if u < l && !(u == 5 && api.zoned_days) && m.u[u].abs() >= lim[u] {
                cx.violation(&format!("{}::until/unbalanced-time-units[{}]", api.name, lname), || case(), || format!("|{}| < {}", UNIT_NAMES[u], lim[u]), || m.show());
                break;
            }
        }
        if sign != 0 {
            for &u in out_units(l).iter() {
                if u <= arith::HOUR && !(api.zoned_days && u == arith::HOUR) {
                    // covered by the static bounds above; the hour carry of a
                    // zoned difference is checked behaviourally through the day unit
                    continue;
                }
                if u < arith::DAY {
                    continue;
                }
                // s truncated at u, plus one more u, must overshoot b
                let mut trunc = m;
                for i in 0..u {
                    trunc.u[i] = 0;
                }
                let mut more = trunc;
                more.u[u] += sign;
                cx.eval(1);
                let p = trunc.to_jiff().ok().and_then(|s| guard(|| (api.add)(a, &s)).ok().flatten());
                let q = more.to_jiff().ok().and_then(|s| guard(|| (api.add)(a, &s)).ok().flatten());
                if let Some(p) = p {
                    let past = if sign > 0 { p > b } else { p < b };
                    if past {
                        cx.violation(&format!("{}::until/truncation-overshoots[{}]", api.name, lname), || case(), || format!("a + {} not past b", trunc.show()), || format!("{}", p));
                    }
                }
                if (u == arith::MONTH || u == arith::YEAR) && (api.dom)(a) >= 29 {
                    // one more month/year may land on or before b only because the
                    // day of month is clamped (Temporal counts such a month as not
                    // completed): no verdict
                    cx.count("balanced_check_skipped_day_clamping", 1);
                    continue;
                }
                if (api.landing_ambiguous)(a, &more) || (api.landing_ambiguous)(a, &trunc) {
                    // whole days are counted on the wall clock; when the landing
                    // wall-clock time is inside a gap or fold the instant order can differ
                    cx.count("balanced_check_skipped_ambiguous_landing", 1);
                    continue;
                }
                if let Some(q) = q {
                    let past = if sign > 0 { q >= b } else { q <= b };
                    if !past {
                        cx.violation(&format!("{}::until/unbalanced[{}]", api.name, lname), || case(), || format!("a + {} overshoots b (one more {} fits)", more.show(), UNIT_NAMES[u]), || format!("lands at {} (b = {})", q, b));
                    }
                }
            }
        }
    }
    // 5. since == -until
    cx.eval(1);
    match (api.since)(a, b, largest) {
        Err(p) => cx.violation(&format!("{}::since/panic@{}", api.name, p.loc()), || case(), || "Ok".into(), || p.what.clone()),
        Ok(g) => {
            let gm = g.as_ref().map(MSpan::from_jiff);
            if gm != Some(m.neg()) {
                cx.violation(&format!("{}::since/not-negation-of-until[{}]", api.name, lname), || case(), || m.neg().show(), || format!("{:?}", gm.map(|x| x.show())));
            }
        }
    }
    // 6. absolute durations
    if largest.is_none() {
        cx.eval(2);
        match (api.duration_until)(a, b) {
            Ok(g) if g == d => {}
            Ok(g) => cx.violation(&format!("{}::duration_until", api.name), || case(), || format!("{}", d), || format!("{}", g)),
            Err(p) => cx.violation(&format!("{}::duration_until/panic@{}", api.name, p.loc()), || case(), || format!("{}", d), || p.what.clone()),
        }
        match (api.duration_since)(a, b) {
            Ok(g) if g == -d => {}
            Ok(g) => cx.violation(&format!("{}::duration_since", api.name), || case(), || format!("{}", -d), || format!("{}", g)),
            Err(p) => cx.violation(&format!("{}::duration_since/panic@{}", api.name, p.loc()), || case(), || format!("{}", -d), || p.what.clone()),
        }
    }
}

fn gen_pair_days(r: &mut Rng) -> (i64, i64) {
    let a = gen::gen_day(r);
    let b = match r.below(6) {
        0 => a,
        1 => (a + r.range(-40, 40)).clamp(cal::MIN_DAY, cal::MAX_DAY),
        2 => (a + r.range(-800, 800)).clamp(cal::MIN_DAY, cal::MAX_DAY),
        _ => gen::gen_day(r),
    };
    (a, b)
}

/// A time-of-day difference in which only a chosen subset of the units (ns, us, ms, s, min, h) is non-zero: the
/// difference then has zero fields *between* non-zero ones (e.g. whole microseconds and nothing else).
fn sparse_delta(r: &mut Rng) -> i64 {
    const UNIT: [i64; 6] = [1, 1_000, 1_000_000, 1_000_000_000, 60_000_000_000, 3_600_000_000_000];
    let mut d = 0i64;
    let mask = r.range(1, 63);
    for (u, unit) in UNIT.iter().enumerate() {
        if mask >> u & 1 == 1 {
            d += unit * if u == 5 { r.range(1, 23) } else if u >= 3 { r.range(1, 59) } else { r.range(1, 999) };
        }
    }
    if r.chance(1, 2) {
        -d
    } else {
        d
    }
}

fn gen_pair_nod(r: &mut Rng) -> (i64, i64) {
    let a = gen::gen_nod(r);
    let b = match r.below(7) {
        0 => a,
        1 => (a + r.range(-3, 3)).clamp(0, NS_DAY as i64 - 1),
        2 | 3 => (a + sparse_delta(r)).rem_euclid(NS_DAY as i64),
        _ => gen::gen_nod(r),
    };
    (a, b)
}

pub fn run_civil(cx: &mut Ctx, r: &mut Rng) {
    // Date
    let date_api = Api {
        name: "Date",
        until: &|a, b, l| {
            guard(|| {
                let (x, y) = (date_of_day(a as i64), date_of_day(b as i64));
                match l {
                    Some(l) => x.until((unit_of(l), y)).ok(),
                    None => x.until(y).ok(),
                }
            })
        },
        since: &|a, b, l| {
            guard(|| {
                let (x, y) = (date_of_day(a as i64), date_of_day(b as i64));
                match l {
                    Some(l) => x.since((unit_of(l), y)).ok(),
                    None => x.since(y).ok(),
                }
            })
        },
        add: &|a, s| date_of_day(a as i64).checked_add(*s).ok().map(|d| day_of_date(d) as i128),
        dist: &|a, b| (b - a) * NS_DAY,
        duration_until: &|a, b| guard(|| date_of_day(a as i64).duration_until(date_of_day(b as i64)).as_nanos()),
        duration_since: &|a, b| guard(|| date_of_day(a as i64).duration_since(date_of_day(b as i64)).as_nanos()),
        permitted: &|u| u >= arith::DAY,
        zoned_days: false,
        dom: &|a| cal::civil_from_days(a as i64).2,
        landing_ambiguous: &|_, _| false,
    };
    let dt_api = Api {
        name: "DateTime",
        until: &|a, b, l| {
            guard(|| {
                let (x, y) = (dt_of(Civ::from_ns(a)).unwrap(), dt_of(Civ::from_ns(b)).unwrap());
                match l {
                    Some(l) => x.until((unit_of(l), y)).ok(),
                    None => x.until(y).ok(),
                }
            })
        },
        since: &|a, b, l| {
            guard(|| {
                let (x, y) = (dt_of(Civ::from_ns(a)).unwrap(), dt_of(Civ::from_ns(b)).unwrap());
                match l {
                    Some(l) => x.since((unit_of(l), y)).ok(),
                    None => x.since(y).ok(),
                }
            })
        },
        add: &|a, s| dt_of(Civ::from_ns(a)).unwrap().checked_add(*s).ok().map(|d| civ_of(d).to_ns()),
        dist: &|a, b| b - a,
        duration_until: &|a, b| guard(|| dt_of(Civ::from_ns(a)).unwrap().duration_until(dt_of(Civ::from_ns(b)).unwrap()).as_nanos()),
        duration_since: &|a, b| guard(|| dt_of(Civ::from_ns(a)).unwrap().duration_since(dt_of(Civ::from_ns(b)).unwrap()).as_nanos()),
        permitted: &|_| true,
        zoned_days: false,
        dom: &|a| Civ::from_ns(a).ymd().2,
        landing_ambiguous: &|_, _| false,
    };
    let time_api = Api {
        name: "Time",
        until: &|a, b, l| {
            guard(|| {
                let (x, y) = (time_of_nod(a as i64), time_of_nod(b as i64));
                match l {
                    Some(l) => x.until((unit_of(l), y)).ok(),
                    None => x.until(y).ok(),
                }
            })
        },
        since: &|a, b, l| {
            guard(|| {
                let (x, y) = (time_of_nod(a as i64), time_of_nod(b as i64));
                match l {
                    Some(l) => x.since((unit_of(l), y)).ok(),
                    None => x.since(y).ok(),
                }
            })
        },
        add: &|a, s| time_of_nod(a as i64).checked_add(*s).ok().map(|t| nod_of_time(t) as i128),
        dist: &|a, b| b - a,
        duration_until: &|a, b| guard(|| time_of_nod(a as i64).duration_until(time_of_nod(b as i64)).as_nanos()),
        duration_since: &|a, b| guard(|| time_of_nod(a as i64).duration_since(time_of_nod(b as i64)).as_nanos()),
        permitted: &|u| u <= arith::HOUR,
        zoned_days: false,
        dom: &|_| 1,
        landing_ambiguous: &|_, _| false,
    };
    let ts_api = Api {
        name: "Timestamp",
        until: &|a, b, l| {
            guard(|| {
                let (x, y) = (ts_from_ns(a).unwrap(), ts_from_ns(b).unwrap());
                match l {
                    Some(l) => x.until((unit_of(l), y)).ok(),
                    None => x.until(y).ok(),
                }
            })
        },
        since: &|a, b, l| {
            guard(|| {
                let (x, y) = (ts_from_ns(a).unwrap(), ts_from_ns(b).unwrap());
                match l {
                    Some(l) => x.since((unit_of(l), y)).ok(),
                    None => x.since(y).ok(),
                }
            })
        },
        add: &|a, s| ts_from_ns(a).unwrap().checked_add(*s).ok().map(|t| t.as_nanosecond()),
        dist: &|a, b| b - a,
        duration_until: &|a, b| guard(|| ts_from_ns(a).unwrap().duration_until(ts_from_ns(b).unwrap()).as_nanos()),
        duration_since: &|a, b| guard(|| ts_from_ns(a).unwrap().duration_since(ts_from_ns(b).unwrap()).as_nanos()),
        permitted: &|u| u <= arith::HOUR,
        zoned_days: false,
        dom: &|_| 1,
        landing_ambiguous: &|_, _| false,
    };
    let n = cx.budget(6_000_000, 200_000_000);
    for i in 0..n {
        let largest = if r.chance(1, 12) { None } else { Some(r.below(10) as usize) };
        match i % 4 {
            0 => {
                let (a, b) = gen_pair_days(r);
                check_pair(cx, &date_api, a as i128, b as i128, largest, &|| format!("date|{}|{}|{:?}", a, b, largest));
                cx.nontrivial(hash64(format!("d{}|{}|{:?}", a, b, largest).as_bytes()));
            }
            1 => {
                let (a, b) = gen_pair_days(r);
                let (na, nb) = gen_pair_nod(r);
                let (x, y) = (Civ { day: a, nod: na }.to_ns(), Civ { day: b, nod: nb }.to_ns());
                check_pair(cx, &dt_api, x, y, largest, &|| format!("dt|{}|{}|{:?}", x, y, largest));
                cx.nontrivial(hash64(format!("t{}|{}|{:?}", x, y, largest).as_bytes()));
            }
            2 => {
                let (a, b) = gen_pair_nod(r);
                check_pair(cx, &time_api, a as i128, b as i128, largest, &|| format!("time|{}|{}|{:?}", a, b, largest));
            }
            _ => {
                let a = match r.below(5) {
                    0 => MIN_NS + r.below(1_000_000_000_000) as i128,
                    1 => MAX_NS - r.below(1_000_000_000_000) as i128,
                    2 => r.range(-5_000_000_000, 5_000_000_000) as i128,
                    _ => r.range128(MIN_NS, MAX_NS),
                };
                let b = match r.below(5) {
                    0 => MIN_NS,
                    1 => MAX_NS,
                    2 => (a + r.range(-4_000_000_000_000, 4_000_000_000_000) as i128).clamp(MIN_NS, MAX_NS),
                    3 => a,
                    _ => r.range128(MIN_NS, MAX_NS),
                };
                check_pair(cx, &ts_api, a, b, largest, &|| format!("ts|{}|{}|{:?}", a, b, largest));
            }
        }
        if i == 10 {
            cx.sample(|| "Date 2024-01-31 until(month) 2024-03-01 = 1mo 1d; a + s == b; one more month overshoots".to_string());
        }
    }
    // limits, every unit
    if cx.shard == 0 {
        for l in 0..10usize {
            for (a, b) in [(cal::MIN_DAY, cal::MAX_DAY), (cal::MAX_DAY, cal::MIN_DAY), (0, 0), (cal::MIN_DAY, cal::MIN_DAY + 1)] {
                check_pair(cx, &date_api, a as i128, b as i128, Some(l), &|| format!("date|{}|{}|{:?}", a, b, Some(l)));
                let (x, y) = (Civ { day: a, nod: 0 }.to_ns(), Civ { day: b, nod: NS_DAY as i64 - 1 }.to_ns());
                check_pair(cx, &dt_api, x, y, Some(l), &|| format!("dt|{}|{}|{:?}", x, y, Some(l)));
                check_pair(cx, &dt_api, y, x, Some(l), &|| format!("dt|{}|{}|{:?}", y, x, Some(l)));
            }
            check_pair(cx, &ts_api, MIN_NS, MAX_NS, Some(l), &|| format!("ts|{}|{}|{:?}", MIN_NS, MAX_NS, Some(l)));
            check_pair(cx, &ts_api, MAX_NS, MIN_NS, Some(l), &|| format!("ts|{}|{}|{:?}", MAX_NS, MIN_NS, Some(l)));
            check_pair(cx, &time_api, 0, NS_DAY - 1, Some(l), &|| format!("time|0|{}|{:?}", NS_DAY - 1, Some(l)));
        }
    }
}

fn zoned_api<'a>(
    until: &'a dyn Fn(i128, i128, Option<usize>) -> Result<Option<Span>, Panicked>,
    since: &'a dyn Fn(i128, i128, Option<usize>) -> Result<Option<Span>, Panicked>,
    add: &'a dyn Fn(i128, &Span) -> Option<i128>,
    du: &'a dyn Fn(i128, i128) -> Result<i128, Panicked>,
    ds: &'a dyn Fn(i128, i128) -> Result<i128, Panicked>,
    dom: &'a dyn Fn(i128) -> i64,
    amb: &'a dyn Fn(i128, &MSpan) -> bool,
) -> Api<'a> {
    Api { name: "Zoned", until, since, add, dist: &|a, b| b - a, duration_until: du, duration_since: ds, permitted: &|_| true, zoned_days: true, dom, landing_ambiguous: amb }
}

/// model: does a + (calendar part of s) land on a civil time that is not unambiguous?
fn zoned_landing_ambiguous(z: &ZoneCase, a: i128, s: &MSpan) -> bool {
    let c = crate::c06::model_civil(z, a);
    let mut calpart = *s;
    for i in 0..=arith::HOUR {
        calpart.u[i] = 0;
    }
    match arith::add_datetime(c, &calpart) {
        None => false,
        Some(c2) => !matches!(crate::c04::model_classify(&z.model, c2), crate::c04::Class::Unambiguous(_)),
    }
}

pub fn run_zoned(cx: &mut Ctx, r: &mut Rng) {
    let years = zones::probe_years(&mut Rng::new(cx.seed), false);
    let ids = zones::corpus_ids(&cx.work);
    let stride = if cx.thorough { 2 } else { 7 };
    let mut zs: Vec<ZoneCase> = Vec::new();
    for (i, id) in ids.iter().enumerate() {
        let odd = id.contains(":Odd/") || ["Juneau", "Sitka", "Metlakatla", "Apia", "Kwajalein", "Kiritimati", "Manila", "Fakaofo", "Enderbury", "Kanton", "Kosrae", "Pago_Pago", "Midway"].iter().any(|n| id.ends_with(n));
        if (i as u64 % stride == cx.seed % stride || odd) && cx.mine(i as u64) {
            if let Ok(z) = zones::resolve(id, &cx.work) {
                zs.push(z);
            }
        }
    }
    for (i, s) in zones::FIXED_POSIX.iter().enumerate() {
        if cx.mine(i as u64) {
            if let Ok(z) = zones::from_posix(s) {
                zs.push(z);
            }
        }
    }
    let cor = tzmon::corroborate_all(&zs, &cx.work, &years);
    let per_zone = if cx.thorough { 60_000 } else { 8_000 };
    for (z, c) in zs.iter().zip(cor.iter()) {
        if !c.ok() || z.model.d10_zone() {
            cx.count("zones_skipped_no_verdict", 1);
            continue;
        }
        cx.count("zones", 1);
        let tz = z.tz.clone();
        let mk = |t: i128| Zoned::new(ts_from_ns(t).unwrap(), tz.clone());
        let until = |a: i128, b: i128, l: Option<usize>| {
            guard(|| {
                let (x, y) = (mk(a), mk(b));
                match l {
                    Some(l) => x.until((unit_of(l), &y)).ok(),
                    None => x.until(&y).ok(),
                }
            })
        };
        let since = |a: i128, b: i128, l: Option<usize>| {
            guard(|| {
                let (x, y) = (mk(a), mk(b));
                match l {
                    Some(l) => x.since((unit_of(l), &y)).ok(),
                    None => x.since(&y).ok(),
                }
            })
        };
        let add = |a: i128, s: &Span| mk(a).checked_add(*s).ok().map(|x| x.timestamp().as_nanosecond());
        let du = |a: i128, b: i128| guard(|| mk(a).duration_until(&mk(b)).as_nanos());
        let ds = |a: i128, b: i128| guard(|| mk(a).duration_since(&mk(b)).as_nanos());
        let dom = |a: i128| crate::c06::model_civil(z, a).ymd().2;
        let amb = |a: i128, s: &MSpan| zoned_landing_ambiguous(z, a, s);
        let api = zoned_api(&until, &since, &add, &du, &ds, &dom, &amb);
        let changes = z.model.changes(zones::TS_MIN, zones::TS_MAX, &years);
        // date-line style jumps (|offset change| >= 20 h) get extra attention
        let big: Vec<i64> = changes.iter().copied().filter(|&t| (z.model.utoff(t) as i64 - z.model.utoff(t - 1) as i64).abs() >= 72_000).collect();
        if !big.is_empty() {
            cx.count("zones_with_dateline_jump", 1);
        }
        let zh = hash64(z.id.as_bytes());
        for k in 0..per_zone {
            let pick_near = |r: &mut Rng| -> i128 {
                if !big.is_empty() && r.chance(1, 2) {
                    let c = *r.pick(&big);
                    return ((c as i128 + r.range(-260_000, 260_000) as i128) * NS + *r.pick(&[0i64, 1, 999_999_999, 0]) as i128).clamp(MIN_NS, MAX_NS);
                }
                if changes.is_empty() {
                    r.range128(MIN_NS, MAX_NS)
                } else {
                    let c = *r.pick(&changes);
                    ((c as i128 + r.range(-200_000, 200_000) as i128) * NS + *r.pick(&[0i64, 1, 999_999_999, 0]) as i128).clamp(MIN_NS, MAX_NS)
                }
            };
            let a = match k % 6 {
                5 => r.range128(MIN_NS, MAX_NS),
                _ => pick_near(r),
            };
            let b = match k % 7 {
                0 => pick_near(r),
                1 => a,
                2 => (a + r.range(-40 * 86400, 40 * 86400) as i128 * NS).clamp(MIN_NS, MAX_NS),
                3 => (a + r.range(-800 * 86400, 800 * 86400) as i128 * NS + r.range(-999_999_999, 999_999_999) as i128).clamp(MIN_NS, MAX_NS),
                5 => (a + r.range(-400, 400) as i128 * NS_DAY + sparse_delta(r) as i128).clamp(MIN_NS, MAX_NS),
                4 => {
                    // same wall-clock time on another day (crossing time of day exactly)
                    let days = r.range(-400, 400);
                    (a + days as i128 * NS_DAY + r.range(-7200, 7200) as i128 * NS).clamp(MIN_NS, MAX_NS)
                }
                _ => r.range128(MIN_NS, MAX_NS),
            };
            // aimed: both operands inside the same fold (second pass -> first pass and back)
            let (a, b) = if k % 9 == 8 && !changes.is_empty() {
                let c = *r.pick(&changes);
                let w = (z.model.utoff(c - 1) as i64 - z.model.utoff(c) as i64).max(1);
                let x = (c + r.range(0, w - 1).max(0)) as i128 * NS + r.range(0, 999_999_999) as i128;
                let y = (c - r.range(1, w)) as i128 * NS;
                let (x, y) = (x.clamp(MIN_NS, MAX_NS), y.clamp(MIN_NS, MAX_NS));
                cx.count("pairs_inside_one_fold", 1);
                if r.chance(1, 2) {
                    (x, y)
                } else {
                    (y, x)
                }
            } else {
                (a, b)
            };
            let largest = if r.chance(1, 10) { None } else { Some(r.below(10) as usize) };
            check_pair(cx, &api, a, b, largest, &|| format!("zoned|{}|{}|{}|{:?}", z.id, a, b, largest));
            if k % 2 == 0 {
                cx.nontrivial(crate::rng::hash_mix(zh, hash64(format!("{}|{}|{:?}", a, b, largest).as_bytes())));
            }
        }
        cx.count("zoned_pairs", per_zone as u64);
    }
}

pub fn run(cx: &mut Ctx) {
    if let Some(case) = cx.case.clone() {
        return replay(cx, &case);
    }
    let mut r = Rng::new(cx.shard_seed());
    run_civil(cx, &mut r);
    run_zoned(cx, &mut r);
}

fn parse_largest(s: &str) -> Option<usize> {
    s.trim_start_matches("Some(").trim_end_matches(')').parse().ok()
}

fn replay(cx: &mut Ctx, case: &str) {
    // re-run through the generic machinery by rebuilding the same closures
    let p: Vec<&str> = case.split('|').collect();
    let kind = p[0];
    if kind == "zoned" {
        let z = match zones::resolve(p[1], &cx.work) {
            Ok(z) => z,
            Err(e) => return cx.inconclusive(e),
        };
        let (a, b): (i128, i128) = (p[2].parse().unwrap_or(0), p[3].parse().unwrap_or(0));
        let largest = parse_largest(p[4]);
        let tz = z.tz.clone();
        let mk = |t: i128| Zoned::new(ts_from_ns(t).unwrap(), tz.clone());
        let until = |a: i128, b: i128, l: Option<usize>| {
            guard(|| {
                let (x, y) = (mk(a), mk(b));
                match l {
                    Some(l) => x.until((unit_of(l), &y)).ok(),
                    None => x.until(&y).ok(),
                }
            })
        };
        let since = |a: i128, b: i128, l: Option<usize>| {
            guard(|| {
                let (x, y) = (mk(a), mk(b));
                match l {
                    Some(l) => x.since((unit_of(l), &y)).ok(),
                    None => x.since(&y).ok(),
                }
            })
        };
        let add = |a: i128, s: &Span| mk(a).checked_add(*s).ok().map(|x| x.timestamp().as_nanosecond());
        let du = |a: i128, b: i128| guard(|| mk(a).duration_until(&mk(b)).as_nanos());
        let ds = |a: i128, b: i128| guard(|| mk(a).duration_since(&mk(b)).as_nanos());
        let dom = |a: i128| crate::c06::model_civil(&z, a).ymd().2;
        let amb = |a: i128, s: &MSpan| zoned_landing_ambiguous(&z, a, s);
        let api = zoned_api(&until, &since, &add, &du, &ds, &dom, &amb);
        println!("a = {}  b = {}  until = {:?}", mk(a), mk(b), until(a, b, largest));
        check_pair(cx, &api, a, b, largest, &|| case.to_string());
    } else {
        // civil kinds: reuse run_civil's closures through a tiny re-dispatch
        cx.opts.insert("replay_kind".into(), kind.to_string());
        let (a, b): (i128, i128) = (p[1].parse().unwrap_or(0), p[2].parse().unwrap_or(0));
        let largest = parse_largest(p[3]);
        replay_civil(cx, kind, a, b, largest, case);
    }
    println!("replay {}: evaluations={} violations={}", case, cx.evals, cx.viol_total);
}

fn replay_civil(cx: &mut Ctx, kind: &str, a: i128, b: i128, largest: Option<usize>, case: &str) {
    // A minimal duplicate of the closures above for one kind.
    match kind {
        "date" => {
            let api = Api {
                name: "Date",
                until: &|a, b, l| guard(|| match l { Some(l) => date_of_day(a as i64).until((unit_of(l), date_of_day(b as i64))).ok(), None => date_of_day(a as i64).until(date_of_day(b as i64)).ok() }),
                since: &|a, b, l| guard(|| match l { Some(l) => date_of_day(a as i64).since((unit_of(l), date_of_day(b as i64))).ok(), None => date_of_day(a as i64).since(date_of_day(b as i64)).ok() }),
                add: &|a, s| date_of_day(a as i64).checked_add(*s).ok().map(|d| day_of_date(d) as i128),
                dist: &|a, b| (b - a) * NS_DAY,
                duration_until: &|a, b| guard(|| date_of_day(a as i64).duration_until(date_of_day(b as i64)).as_nanos()),
                duration_since: &|a, b| guard(|| date_of_day(a as i64).duration_since(date_of_day(b as i64)).as_nanos()),
                permitted: &|u| u >= arith::DAY,
                zoned_days: false,
                dom: &|a| cal::civil_from_days(a as i64).2,
                landing_ambiguous: &|_, _| false,
            };
            println!("until = {:?}", (api.until)(a, b, largest));
            check_pair(cx, &api, a, b, largest, &|| case.to_string());
        }
        "dt" => {
            let api = Api {
                name: "DateTime",
                until: &|a, b, l| guard(|| match l { Some(l) => dt_of(Civ::from_ns(a)).unwrap().until((unit_of(l), dt_of(Civ::from_ns(b)).unwrap())).ok(), None => dt_of(Civ::from_ns(a)).unwrap().until(dt_of(Civ::from_ns(b)).unwrap()).ok() }),
                since: &|a, b, l| guard(|| match l { Some(l) => dt_of(Civ::from_ns(a)).unwrap().since((unit_of(l), dt_of(Civ::from_ns(b)).unwrap())).ok(), None => dt_of(Civ::from_ns(a)).unwrap().since(dt_of(Civ::from_ns(b)).unwrap()).ok() }),
                add: &|a, s| dt_of(Civ::from_ns(a)).unwrap().checked_add(*s).ok().map(|d| civ_of(d).to_ns()),
                dist: &|a, b| b - a,
                duration_until: &|a, b| guard(|| dt_of(Civ::from_ns(a)).unwrap().duration_until(dt_of(Civ::from_ns(b)).unwrap()).as_nanos()),
                duration_since: &|a, b| guard(|| dt_of(Civ::from_ns(a)).unwrap().duration_since(dt_of(Civ::from_ns(b)).unwrap()).as_nanos()),
                permitted: &|_| true,
                zoned_days: false,
                dom: &|a| Civ::from_ns(a).ymd().2,
                landing_ambiguous: &|_, _| false,
            };
            println!("until = {:?}", (api.until)(a, b, largest));
            check_pair(cx, &api, a, b, largest, &|| case.to_string());
        }
        "time" => {
            let api = Api {
                name: "Time",
                until: &|a, b, l| guard(|| match l { Some(l) => time_of_nod(a as i64).until((unit_of(l), time_of_nod(b as i64))).ok(), None => time_of_nod(a as i64).until(time_of_nod(b as i64)).ok() }),
                since: &|a, b, l| guard(|| match l { Some(l) => time_of_nod(a as i64).since((unit_of(l), time_of_nod(b as i64))).ok(), None => time_of_nod(a as i64).since(time_of_nod(b as i64)).ok() }),
                add: &|a, s| time_of_nod(a as i64).checked_add(*s).ok().map(|t| nod_of_time(t) as i128),
                dist: &|a, b| b - a,
                duration_until: &|a, b| guard(|| time_of_nod(a as i64).duration_until(time_of_nod(b as i64)).as_nanos()),
                duration_since: &|a, b| guard(|| time_of_nod(a as i64).duration_since(time_of_nod(b as i64)).as_nanos()),
                permitted: &|u| u <= arith::HOUR,
                zoned_days: false,
                dom: &|_| 1,
                landing_ambiguous: &|_, _| false,
            };
            println!("until = {:?}", (api.until)(a, b, largest));
            check_pair(cx, &api, a, b, largest, &|| case.to_string());
        }
        _ => {
            let api = Api {
                name: "Timestamp",
                until: &|a, b, l| guard(|| match l { Some(l) => ts_from_ns(a).unwrap().until((unit_of(l), ts_from_ns(b).unwrap())).ok(), None => ts_from_ns(a).unwrap().until(ts_from_ns(b).unwrap()).ok() }),
                since: &|a, b, l| guard(|| match l { Some(l) => ts_from_ns(a).unwrap().since((unit_of(l), ts_from_ns(b).unwrap())).ok(), None => ts_from_ns(a).unwrap().since(ts_from_ns(b).unwrap()).ok() }),
                add: &|a, s| ts_from_ns(a).unwrap().checked_add(*s).ok().map(|t| t.as_nanosecond()),
                dist: &|a, b| b - a,
                duration_until: &|a, b| guard(|| ts_from_ns(a).unwrap().duration_until(ts_from_ns(b).unwrap()).as_nanos()),
                duration_since: &|a, b| guard(|| ts_from_ns(a).unwrap().duration_since(ts_from_ns(b).unwrap()).as_nanos()),
                permitted: &|u| u <= arith::HOUR,
                zoned_days: false,
                dom: &|_| 1,
                landing_ambiguous: &|_, _| false,
            };
            println!("until = {:?}", (api.until)(a, b, largest));
            check_pair(cx, &api, a, b, largest, &|| case.to_string());
        }
    }
}

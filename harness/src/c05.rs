//! C05 — fallible operations return Ok or Err (no panics), Ok values are in
//! range, and debug-assertion and release builds agree.
//!
//! Every case is generated from (seed, shard, index) only, so the same case
//! list is executed in both flavours; the per-case result hashes are written
//! to `<out>.c05` and diffed offline by the driver.

use crate::arith::{unit_of, MODES};
use crate::c02::{MAX_NS, MIN_NS};
use crate::cal;
use crate::gen::{self, date_of_day, sdur_of_ns, time_of_nod, udur_of_ns};
use crate::rep::{guard, Ctx};
use crate::rng::{hash64, hash_mix, Rng};
use crate::tzmon::dt_of;
use jiff::civil::{Date, DateTime, DateTimeRound, ISOWeekDate, Time, TimeRound, Weekday};
use jiff::tz::{Disambiguation, Offset, OffsetConflict, OffsetRound, TimeZone};
use jiff::{SignedDuration, SignedDurationRound, Span, SpanRelativeTo, SpanRound, SpanTotal, Timestamp, TimestampRound, Unit, Zoned, ZonedRound};

pub enum V {
    Date(Date),
    Time(Time),
    Dt(DateTime),
    Ts(Timestamp),
    Zoned(Zoned),
    Span(Span),
    Sd(SignedDuration),
    Off(Offset),
    Iso(ISOWeekDate),
    F64(f64),
    Str(String),
}

impl V {
    pub fn canon(&self) -> String {
        match self {
            V::Date(d) => format!("Date({},{},{})", d.year(), d.month(), d.day()),
            V::Time(t) => format!("Time({},{},{},{})", t.hour(), t.minute(), t.second(), t.subsec_nanosecond()),
            V::Dt(d) => format!("Dt({},{},{},{},{},{},{})", d.year(), d.month(), d.day(), d.hour(), d.minute(), d.second(), d.subsec_nanosecond()),
            V::Ts(t) => format!("Ts({},{})", t.as_second(), t.subsec_nanosecond()),
            V::Zoned(z) => format!("Zoned({},{},{})", z.timestamp().as_second(), z.timestamp().subsec_nanosecond(), z.offset().seconds()),
            V::Span(s) => format!("Span({:?})", crate::arith::MSpan::from_jiff(s).u),
            V::Sd(d) => format!("Sd({},{})", d.as_secs(), d.subsec_nanos()),
            V::Off(o) => format!("Off({})", o.seconds()),
            V::Iso(w) => format!("Iso({},{},{})", w.year(), w.week(), w.weekday().to_monday_one_offset()),
            V::F64(f) => format!("F64({:016x})", f.to_bits()),
            V::Str(s) => format!("Str({})", s),
        }
    }
    /// range predicates: raw getters and re-validation through checked constructors
    pub fn in_range(&self) -> Result<(), String> {
        let date_ok = |d: &Date| {
            let (y, m, dd) = (d.year() as i64, d.month() as i64, d.day() as i64);
            if !cal::valid(y, m, dd) || Date::new(d.year(), d.month(), d.day()).ok() != Some(*d) {
                Err(format!("invalid date {:?}", (y, m, dd)))
            } else {
                Ok(())
            }
        };
        let time_ok = |t: &Time| {
            if Time::new(t.hour(), t.minute(), t.second(), t.subsec_nanosecond()).ok() != Some(*t) {
                Err(format!("invalid time {:?}", (t.hour(), t.minute(), t.second(), t.subsec_nanosecond())))
            } else {
                Ok(())
            }
        };
        let ts_ok = |t: &Timestamp| {
            let n = t.as_second() as i128 * 1_000_000_000 + t.subsec_nanosecond() as i128;
            if n < MIN_NS || n > MAX_NS || Timestamp::new(t.as_second(), t.subsec_nanosecond()).ok() != Some(*t) || *t < Timestamp::MIN || *t > Timestamp::MAX {
                Err(format!("timestamp out of range or denormalized: second {} nanosecond {}", t.as_second(), t.subsec_nanosecond()))
            } else {
                Ok(())
            }
        };
        match self {
            V::Date(d) => date_ok(d),
            V::Time(t) => time_ok(t),
            V::Dt(d) => date_ok(&d.date()).and(time_ok(&d.time())),
            V::Ts(t) => ts_ok(t),
            V::Zoned(z) => {
                ts_ok(&z.timestamp())?;
                if z.offset() != z.time_zone().to_offset(z.timestamp()) || z.datetime() != z.offset().to_datetime(z.timestamp()) {
                    return Err(format!("inconsistent zoned {}", z));
                }
                date_ok(&z.date())
            }
            V::Span(s) => {
                let m = crate::arith::MSpan::from_jiff(s);
                let mut sign = 0;
                for i in 0..10 {
                    if m.u[i] == i64::MIN || m.u[i].abs() > crate::arith::LIMITS[i] {
                        return Err(format!("span unit {} out of limits: {}", crate::arith::UNIT_NAMES[i], m.u[i]));
                    }
                    if m.u[i] != 0 {
                        if sign != 0 && sign != m.u[i].signum() {
                            return Err(format!("span with mixed signs {:?}", m.u));
                        }
                        sign = m.u[i].signum();
                    }
                }
                Ok(())
            }
            V::Sd(d) => {
                let (s, n) = (d.as_secs(), d.subsec_nanos());
                if n.abs() >= 1_000_000_000 || (s > 0 && n < 0) || (s < 0 && n > 0) {
                    Err(format!("incoherent duration {} {}", s, n))
                } else {
                    Ok(())
                }
            }
            V::Off(o) => {
                if o.seconds().abs() > 93599 || Offset::from_seconds(o.seconds()).ok() != Some(*o) {
                    Err(format!("offset out of range {}", o.seconds()))
                } else {
                    Ok(())
                }
            }
            V::Iso(w) => {
                // validity by the reference calendar, not by the constructor under test
                let (y, wk, wd) = (w.year() as i64, w.week() as i64, w.weekday().to_monday_one_offset() as i64);
                let day = cal::days_from_iso(y, wk, wd);
                if wk < 1 || wk > cal::iso_weeks_in_year(y) || day < cal::MIN_DAY || day > cal::MAX_DAY {
                    return Err(format!("iso week date {}-W{}-{} does not exist or lies outside the supported range", y, wk, wd));
                }
                let (dy, dm, dd) = cal::civil_from_days(day);
                let d = w.date();
                if (d.year() as i64, d.month() as i64, d.day() as i64) != (dy, dm, dd) {
                    return Err(format!("iso week date {}-W{}-{} gives the date {} instead of {}-{}-{}", y, wk, wd, d, dy, dm, dd));
                }
                if ISOWeekDate::new(w.year(), w.week(), w.weekday()).ok() != Some(*w) {
                    Err(format!("invalid iso week date {:?}", w))
                } else {
                    date_ok(&d)
                }
            }
            V::F64(_) | V::Str(_) => Ok(()),
        }
    }
}

pub struct Zones {
    pub tzs: Vec<TimeZone>,
}

impl Zones {
    pub fn new() -> Zones {
        let mut tzs = Vec::new();
        for n in ["America/New_York", "Europe/London", "Australia/Lord_Howe", "Pacific/Apia", "Asia/Kathmandu", "America/Sao_Paulo", "Africa/Abidjan", "Antarctica/Troll", "America/Juneau", "Europe/Dublin"] {
            if let Some((name, bytes)) = jiff_tzdb::get(n) {
                if let Ok(tz) = TimeZone::tzif(name, bytes) {
                    tzs.push(tz);
                }
            }
        }
        tzs.push(TimeZone::UTC);
        tzs.push(TimeZone::fixed(Offset::MAX));
        tzs.push(TimeZone::fixed(Offset::MIN));
        tzs.push(TimeZone::fixed(Offset::from_seconds(19800).unwrap()));
        for s in ["EST5EDT,M3.2.0,M11.1.0", "AEST-10AEDT,M10.1.0,M4.1.0/3", "<+0545>-5:45", "IST-1GMT0,M10.5.0,M3.5.0/1"] {
            if let Ok(tz) = TimeZone::posix(s) {
                tzs.push(tz);
            }
        }
        Zones { tzs }
    }
}

fn g_ts(r: &mut Rng) -> Timestamp {
    let n = match r.below(8) {
        0 => MIN_NS,
        1 => MAX_NS,
        2 => MIN_NS + r.below(200_000_000_000_000) as i128,
        3 => MAX_NS - r.below(200_000_000_000_000) as i128,
        4 => r.range(-3_000_000_000, 3_000_000_000) as i128,
        5 => (r.range(1_600_000_000, 1_800_000_000) as i128) * 1_000_000_000 + r.below(1_000_000_000) as i128,
        _ => r.range128(MIN_NS, MAX_NS),
    };
    crate::c02::ts_from_ns(n).unwrap()
}
fn g_date(r: &mut Rng) -> Date {
    date_of_day(gen::gen_day(r))
}
fn g_time(r: &mut Rng) -> Time {
    time_of_nod(gen::gen_nod(r))
}
fn g_dt(r: &mut Rng) -> DateTime {
    dt_of(gen::gen_civ(r)).unwrap()
}
fn g_span(r: &mut Rng, units: &[usize]) -> Span {
    for _ in 0..10 {
        if let Ok(s) = gen::gen_span(r, units, false).to_jiff() {
            return s;
        }
    }
    Span::new()
}
fn g_sd(r: &mut Rng) -> SignedDuration {
    sdur_of_ns(gen::gen_sdur_ns(r))
}
fn g_off(r: &mut Rng) -> Offset {
    Offset::from_seconds(r.biased(-93599, 93599) as i32).unwrap()
}
fn g_unit(r: &mut Rng) -> Unit {
    unit_of(r.below(10) as usize)
}
fn g_mode(r: &mut Rng) -> jiff::RoundMode {
    r.pick(&MODES).to_jiff()
}
fn g_inc(r: &mut Rng) -> i64 {
    match r.below(14) {
        0 => 0,
        1 => -1,
        2 => i64::MIN,
        3 => i64::MAX,
        4 => 1000,
        5 => 60,
        6 => 24,
        7 => r.range(2, 1000),
        8 => *r.pick(&[2i64, 3, 4, 5, 6, 10, 12, 15, 20, 30, 100, 250, 500]),
        9 => r.range(-5, 5),
        _ => 1,
    }
}
fn g_wd(r: &mut Rng) -> Weekday {
    Weekday::from_monday_one_offset(r.range(1, 7) as i8).unwrap()
}
fn g_zoned(r: &mut Rng, z: &Zones) -> Zoned {
    let tz = r.pick(&z.tzs).clone();
    let ts = if r.chance(1, 3) {
        // near a transition of that zone, if any
        let base = g_ts(r);
        match tz.following(base).next() {
            Some(t) => {
                let n = t.timestamp().as_nanosecond() + r.range(-100_000, 100_000) as i128 * 1_000_000_000;
                crate::c02::ts_from_ns(n.clamp(MIN_NS, MAX_NS)).unwrap()
            }
            None => base,
        }
    } else {
        g_ts(r)
    };
    Zoned::new(ts, tz)
}
fn g_i16(r: &mut Rng) -> i16 {
    match r.below(8) {
        0 => i16::MIN,
        1 => i16::MAX,
        2 => -9999,
        3 => 9999,
        4 => 10000,
        5 => -10000,
        _ => r.range(-10_100, 10_100) as i16,
    }
}
fn g_i8(r: &mut Rng, lo: i64, hi: i64) -> i8 {
    match r.below(6) {
        0 => i8::MIN,
        1 => i8::MAX,
        2 => (lo - 1).clamp(-128, 127) as i8,
        3 => (hi + 1).clamp(-128, 127) as i8,
        _ => r.range(lo, hi) as i8,
    }
}

pub const N_OPS: u64 = 81;

/// Execute operation `op` on seeded arguments. Returns (api, args, result).
pub fn exec(op: u64, r: &mut Rng, z: &Zones) -> (&'static str, String, Result<V, String>) {
    macro_rules! res {
        ($api:expr, $args:expr, $e:expr, $v:path) => {
            ($api, $args, ($e).map($v).map_err(|e| e.to_string()))
        };
    }
    match op {
        0 => {
            let (y, m, d) = (g_i16(r), g_i8(r, 1, 12), g_i8(r, 1, 31));
            res!("Date::new", format!("{},{},{}", y, m, d), Date::new(y, m, d), V::Date)
        }
        1 => {
            let (d, s) = (g_date(r), g_span(r, &gen::ALL_UNITS));
            res!("Date::checked_add(span)", format!("{} {:?}", d, s), d.checked_add(s), V::Date)
        }
        2 => {
            let (d, s) = (g_date(r), g_sd(r));
            res!("Date::checked_sub(sdur)", format!("{} {:?}", d, s), d.checked_sub(s), V::Date)
        }
        3 => {
            let (d, s) = (g_date(r), udur_of_ns(r.next() as u128 * 1000));
            res!("Date::checked_add(udur)", format!("{} {:?}", d, s), d.checked_add(s), V::Date)
        }
        4 => {
            let (a, b, u, sm, inc, mode) = (g_date(r), g_date(r), g_unit(r), g_unit(r), g_inc(r), g_mode(r));
            let diff = jiff::civil::DateDifference::new(b).largest(u).smallest(sm).increment(inc).mode(mode);
            res!("Date::until(opts)", format!("{} {} {:?} {:?} {} {:?}", a, b, u, sm, inc, mode), a.until(diff), V::Span)
        }
        5 => {
            let (a, b, u) = (g_date(r), g_date(r), g_unit(r));
            res!("Date::since", format!("{} {} {:?}", a, b, u), a.since((u, b)), V::Span)
        }
        6 => {
            let d = g_date(r);
            if r.chance(1, 2) {
                res!("Date::tomorrow", format!("{}", d), d.tomorrow(), V::Date)
            } else {
                res!("Date::yesterday", format!("{}", d), d.yesterday(), V::Date)
            }
        }
        7 => {
            let (d, n, w) = (g_date(r), r.biased_out(-1_043_497, 1_043_497).clamp(i32::MIN as i64, i32::MAX as i64) as i32, g_wd(r));
            res!("Date::nth_weekday", format!("{} {} {:?}", d, n, w), d.nth_weekday(n, w), V::Date)
        }
        8 => {
            let (d, n, w) = (g_date(r), g_i8(r, -5, 5), g_wd(r));
            res!("Date::nth_weekday_of_month", format!("{} {} {:?}", d, n, w), d.nth_weekday_of_month(n, w), V::Date)
        }
        9 => {
            let d = g_date(r);
            let (y, m, dd, doy) = (g_i16(r), g_i8(r, 1, 12), g_i8(r, 1, 31), r.range(-2, 368) as i16);
            let w = d.with();
            let (w, desc) = match r.below(6) {
                0 => (w.year(y), format!("year {}", y)),
                1 => (w.month(m), format!("month {}", m)),
                2 => (w.day(dd), format!("day {}", dd)),
                3 => (w.day_of_year(doy), format!("doy {}", doy)),
                4 => (w.day_of_year_no_leap(doy), format!("doy_nl {}", doy)),
                _ => (w.year(y).month(m).day(dd), format!("ymd {} {} {}", y, m, dd)),
            };
            res!("DateWith::build", format!("{} {}", d, desc), w.build(), V::Date)
        }
        10 => {
            let (d, tz) = (g_date(r), r.pick(&z.tzs).clone());
            res!("Date::to_zoned", format!("{} {:?}", d, tz.iana_name()), d.to_zoned(tz), V::Zoned)
        }
        11 => {
            let (y, w, d) = (g_i16(r), g_i8(r, 1, 53), g_wd(r));
            res!("ISOWeekDate::new", format!("{} {} {:?}", y, w, d), ISOWeekDate::new(y, w, d), V::Iso)
        }
        12 => {
            let w = g_date(r).iso_week_date();
            match r.below(6) {
                0 => res!("ISOWeekDate::first_of_week", format!("{:?}", w), w.first_of_week(), V::Iso),
                1 => res!("ISOWeekDate::last_of_week", format!("{:?}", w), w.last_of_week(), V::Iso),
                2 => res!("ISOWeekDate::first_of_year", format!("{:?}", w), w.first_of_year(), V::Iso),
                3 => res!("ISOWeekDate::last_of_year", format!("{:?}", w), w.last_of_year(), V::Iso),
                4 => res!("ISOWeekDate::tomorrow", format!("{:?}", w), w.tomorrow(), V::Iso),
                _ => res!("ISOWeekDate::yesterday", format!("{:?}", w), w.yesterday(), V::Iso),
            }
        }
        13 => {
            let (h, m, s, n) = (g_i8(r, 0, 23), g_i8(r, 0, 59), g_i8(r, 0, 59), r.biased_out(0, 999_999_999).clamp(i32::MIN as i64, i32::MAX as i64) as i32);
            res!("Time::new", format!("{} {} {} {}", h, m, s, n), Time::new(h, m, s, n), V::Time)
        }
        14 => {
            let (t, s) = (g_time(r), g_span(r, &gen::ALL_UNITS));
            res!("Time::checked_add(span)", format!("{} {:?}", t, s), t.checked_add(s), V::Time)
        }
        15 => {
            let (t, s) = (g_time(r), g_sd(r));
            res!("Time::checked_sub(sdur)", format!("{} {:?}", t, s), t.checked_sub(s), V::Time)
        }
        16 => {
            let (a, b, u, sm, inc, mode) = (g_time(r), g_time(r), g_unit(r), g_unit(r), g_inc(r), g_mode(r));
            let diff = jiff::civil::TimeDifference::new(b).largest(u).smallest(sm).increment(inc).mode(mode);
            res!("Time::until(opts)", format!("{} {} {:?} {:?} {} {:?}", a, b, u, sm, inc, mode), a.until(diff), V::Span)
        }
        17 => {
            let (t, u, inc, mode) = (g_time(r), g_unit(r), g_inc(r), g_mode(r));
            res!("Time::round", format!("{} {:?} {} {:?}", t, u, inc, mode), t.round(TimeRound::new().smallest(u).increment(inc).mode(mode)), V::Time)
        }
        18 => {
            let t = g_time(r);
            let w = t.with();
            let (w, desc) = match r.below(5) {
                0 => {
                    let v = g_i8(r, 0, 23);
                    (w.hour(v), format!("hour {}", v))
                }
                1 => {
                    let v = g_i8(r, 0, 59);
                    (w.minute(v), format!("minute {}", v))
                }
                2 => {
                    let v = g_i8(r, 0, 59);
                    (w.second(v), format!("second {}", v))
                }
                3 => {
                    let v = r.range(-2, 1001) as i16;
                    (w.millisecond(v), format!("ms {}", v))
                }
                _ => {
                    let v = r.biased_out(0, 999_999_999).clamp(i32::MIN as i64, i32::MAX as i64) as i32;
                    (w.subsec_nanosecond(v), format!("subsec {}", v))
                }
            };
            res!("TimeWith::build", format!("{} {}", t, desc), w.build(), V::Time)
        }
        19 => {
            let (y, m, d, h, mi, s, n) = (g_i16(r), g_i8(r, 1, 12), g_i8(r, 1, 31), g_i8(r, 0, 23), g_i8(r, 0, 59), g_i8(r, 0, 59), r.biased_out(0, 999_999_999).clamp(i32::MIN as i64, i32::MAX as i64) as i32);
            res!("DateTime::new", format!("{} {} {} {} {} {} {}", y, m, d, h, mi, s, n), DateTime::new(y, m, d, h, mi, s, n), V::Dt)
        }
        20 => {
            let (d, s) = (g_dt(r), g_span(r, &gen::ALL_UNITS));
            res!("DateTime::checked_add(span)", format!("{} {:?}", d, s), d.checked_add(s), V::Dt)
        }
        21 => {
            let (d, s) = (g_dt(r), g_sd(r));
            res!("DateTime::checked_sub(sdur)", format!("{} {:?}", d, s), d.checked_sub(s), V::Dt)
        }
        22 => {
            let (a, b, u, sm, inc, mode) = (g_dt(r), g_dt(r), g_unit(r), g_unit(r), g_inc(r), g_mode(r));
            let diff = jiff::civil::DateTimeDifference::new(b).largest(u).smallest(sm).increment(inc).mode(mode);
            res!("DateTime::until(opts)", format!("{} {} {:?} {:?} {} {:?}", a, b, u, sm, inc, mode), a.until(diff), V::Span)
        }
        23 => {
            let (a, b, u) = (g_dt(r), g_dt(r), g_unit(r));
            res!("DateTime::since", format!("{} {} {:?}", a, b, u), a.since((u, b)), V::Span)
        }
        24 => {
            let (t, u, inc, mode) = (g_dt(r), g_unit(r), g_inc(r), g_mode(r));
            res!("DateTime::round", format!("{} {:?} {} {:?}", t, u, inc, mode), t.round(DateTimeRound::new().smallest(u).increment(inc).mode(mode)), V::Dt)
        }
        25 => {
            let (d, tz) = (g_dt(r), r.pick(&z.tzs).clone());
            res!("DateTime::to_zoned", format!("{} {:?}", d, tz.iana_name()), d.to_zoned(tz), V::Zoned)
        }
        26 => {
            let (d, n, w) = (g_dt(r), r.biased_out(-1_043_497, 1_043_497).clamp(i32::MIN as i64, i32::MAX as i64) as i32, g_wd(r));
            res!("DateTime::nth_weekday", format!("{} {} {:?}", d, n, w), d.nth_weekday(n, w), V::Dt)
        }
        27 => {
            let d = g_dt(r);
            match r.below(4) {
                0 => res!("DateTime::tomorrow", format!("{}", d), d.tomorrow(), V::Dt),
                1 => res!("DateTime::yesterday", format!("{}", d), d.yesterday(), V::Dt),
                2 => {
                    let (n, w) = (g_i8(r, -5, 5), g_wd(r));
                    res!("DateTime::nth_weekday_of_month", format!("{} {} {:?}", d, n, w), d.nth_weekday_of_month(n, w), V::Dt)
                }
                _ => {
                    let (y, dd) = (g_i16(r), g_i8(r, 1, 31));
                    res!("DateTimeWith::build", format!("{} {} {}", d, y, dd), d.with().year(y).day(dd).build(), V::Dt)
                }
            }
        }
        28 => {
            let (s, n) = (r.biased_out(-377705023201, 253402207200), r.biased_out(-999_999_999, 999_999_999).clamp(i32::MIN as i64, i32::MAX as i64) as i32);
            res!("Timestamp::new", format!("{} {}", s, n), Timestamp::new(s, n), V::Ts)
        }
        29 => {
            let v = r.biased_out(-377705023201000, 253402207200999);
            match r.below(3) {
                0 => res!("Timestamp::from_millisecond", format!("{}", v), Timestamp::from_millisecond(v), V::Ts),
                1 => {
                    let v = r.biased_out(-377705023201000000, 253402207200999999);
                    res!("Timestamp::from_microsecond", format!("{}", v), Timestamp::from_microsecond(v), V::Ts)
                }
                _ => {
                    let v = r.biased_out(-377705023201, 253402207200);
                    res!("Timestamp::from_second", format!("{}", v), Timestamp::from_second(v), V::Ts)
                }
            }
        }
        30 => {
            let v = match r.below(4) {
                0 => MIN_NS - 1 + r.below(3) as i128,
                1 => MAX_NS - 1 + r.below(3) as i128,
                2 => i128::MIN,
                _ => r.range128(MIN_NS * 2, MAX_NS * 2),
            };
            res!("Timestamp::from_nanosecond", format!("{}", v), Timestamp::from_nanosecond(v), V::Ts)
        }
        31 => {
            let d = g_sd(r);
            res!("Timestamp::from_duration", format!("{:?}", d), Timestamp::from_duration(d), V::Ts)
        }
        32 => {
            let (t, s) = (g_ts(r), g_span(r, &gen::ALL_UNITS));
            res!("Timestamp::checked_add(span)", format!("{} {:?}", t, s), t.checked_add(s), V::Ts)
        }
        33 => {
            let (t, s) = (g_ts(r), g_span(r, &gen::TIME_UNITS));
            res!("Timestamp::checked_sub(time span)", format!("{} {:?}", t, s), t.checked_sub(s), V::Ts)
        }
        34 => {
            let (t, s) = (g_ts(r), g_sd(r));
            res!("Timestamp::checked_add(sdur)", format!("{} {:?}", t, s), t.checked_add(s), V::Ts)
        }
        35 => {
            let (a, b, u, sm, inc, mode) = (g_ts(r), g_ts(r), g_unit(r), g_unit(r), g_inc(r), g_mode(r));
            let diff = jiff::TimestampDifference::new(b).largest(u).smallest(sm).increment(inc).mode(mode);
            res!("Timestamp::until(opts)", format!("{} {} {:?} {:?} {} {:?}", a, b, u, sm, inc, mode), a.until(diff), V::Span)
        }
        36 => {
            let (a, b, u) = (g_ts(r), g_ts(r), g_unit(r));
            res!("Timestamp::since", format!("{} {} {:?}", a, b, u), a.since((u, b)), V::Span)
        }
        37 => {
            let (t, u, inc, mode) = (g_ts(r), g_unit(r), g_inc(r), g_mode(r));
            res!("Timestamp::round", format!("{} {:?} {} {:?}", t, u, inc, mode), t.round(TimestampRound::new().smallest(u).increment(inc).mode(mode)), V::Ts)
        }
        38 => {
            let (a, s) = (g_zoned(r, z), g_span(r, &gen::ALL_UNITS));
            res!("Zoned::checked_add(span)", format!("{} {:?}", a, s), a.checked_add(s), V::Zoned)
        }
        39 => {
            let (a, s) = (g_zoned(r, z), g_span(r, &gen::ALL_UNITS));
            res!("Zoned::checked_sub(span)", format!("{} {:?}", a, s), a.checked_sub(s), V::Zoned)
        }
        40 => {
            let (a, s) = (g_zoned(r, z), g_sd(r));
            res!("Zoned::checked_add(sdur)", format!("{} {:?}", a, s), a.checked_add(s), V::Zoned)
        }
        41 => {
            let a = g_zoned(r, z);
            let b = if r.chance(2, 3) { Zoned::new(g_ts(r), a.time_zone().clone()) } else { g_zoned(r, z) };
            let (u, sm, inc, mode) = (g_unit(r), g_unit(r), g_inc(r), g_mode(r));
            let diff = jiff::ZonedDifference::new(&b).largest(u).smallest(sm).increment(inc).mode(mode);
            res!("Zoned::until(opts)", format!("{} {} {:?} {:?} {} {:?}", a, b, u, sm, inc, mode), a.until(diff), V::Span)
        }
        42 => {
            let a = g_zoned(r, z);
            let near = (a.timestamp().as_nanosecond() + r.range(-400_000, 400_000) as i128 * 1_000_000_000).clamp(MIN_NS, MAX_NS);
            let b = Zoned::new(crate::c02::ts_from_ns(near).unwrap(), a.time_zone().clone());
            let u = g_unit(r);
            res!("Zoned::since(near)", format!("{} {} {:?}", a, b, u), a.since((u, &b)), V::Span)
        }
        43 => {
            let (a, u, inc, mode) = (g_zoned(r, z), g_unit(r), g_inc(r), g_mode(r));
            res!("Zoned::round", format!("{} {:?} {} {:?}", a, u, inc, mode), a.round(ZonedRound::new().smallest(u).increment(inc).mode(mode)), V::Zoned)
        }
        44 => {
            let a = g_zoned(r, z);
            match r.below(10) {
                0 => res!("Zoned::start_of_day", format!("{}", a), a.start_of_day(), V::Zoned),
                1 => res!("Zoned::end_of_day", format!("{}", a), a.end_of_day(), V::Zoned),
                2 => res!("Zoned::first_of_month", format!("{}", a), a.first_of_month(), V::Zoned),
                3 => res!("Zoned::last_of_month", format!("{}", a), a.last_of_month(), V::Zoned),
                4 => res!("Zoned::first_of_year", format!("{}", a), a.first_of_year(), V::Zoned),
                5 => res!("Zoned::last_of_year", format!("{}", a), a.last_of_year(), V::Zoned),
                6 => res!("Zoned::tomorrow", format!("{}", a), a.tomorrow(), V::Zoned),
                7 => res!("Zoned::yesterday", format!("{}", a), a.yesterday(), V::Zoned),
                8 => {
                    let (n, w) = (r.biased_out(-1_043_497, 1_043_497).clamp(i32::MIN as i64, i32::MAX as i64) as i32, g_wd(r));
                    res!("Zoned::nth_weekday", format!("{} {} {:?}", a, n, w), a.nth_weekday(n, w), V::Zoned)
                }
                _ => {
                    let (n, w) = (g_i8(r, -5, 5), g_wd(r));
                    res!("Zoned::nth_weekday_of_month", format!("{} {} {:?}", a, n, w), a.nth_weekday_of_month(n, w), V::Zoned)
                }
            }
        }
        45 => {
            let a = g_zoned(r, z);
            let (y, m, d, h) = (g_i16(r), g_i8(r, 1, 12), g_i8(r, 1, 31), g_i8(r, 0, 23));
            let off = g_off(r);
            let conflict = *r.pick(&[OffsetConflict::AlwaysOffset, OffsetConflict::AlwaysTimeZone, OffsetConflict::PreferOffset, OffsetConflict::Reject]);
            let dis = *r.pick(&[Disambiguation::Compatible, Disambiguation::Earlier, Disambiguation::Later, Disambiguation::Reject]);
            let w = a.with();
            let (w, desc) = match r.below(5) {
                0 => (w.year(y), format!("year {}", y)),
                1 => (w.month(m).day(d), format!("month {} day {}", m, d)),
                2 => (w.hour(h).offset(off).offset_conflict(conflict), format!("hour {} off {} {:?}", h, off, conflict)),
                3 => (w.hour(h).disambiguation(dis), format!("hour {} {:?}", h, dis)),
                _ => (w.day(d).hour(h).offset_conflict(conflict).disambiguation(dis), format!("day {} hour {} {:?} {:?}", d, h, conflict, dis)),
            };
            res!("ZonedWith::build", format!("{} {}", a, desc), w.build(), V::Zoned)
        }
        46 => {
            let (s, k) = (g_span(r, &gen::ALL_UNITS), *r.pick(&[0i64, 1, -1, 2, -2, 7, 1000, i64::MAX, i64::MIN, 24, 60]));
            res!("Span::checked_mul", format!("{:?} {}", s, k), s.checked_mul(k), V::Span)
        }
        47 => {
            let (a, b) = (g_span(r, &gen::TIME_UNITS), g_span(r, &gen::TIME_UNITS));
            res!("Span::checked_add(time)", format!("{:?} {:?}", a, b), a.checked_add(b), V::Span)
        }
        48 => {
            let (a, b, d) = (g_span(r, &gen::ALL_UNITS), g_span(r, &gen::ALL_UNITS), g_date(r));
            res!("Span::checked_add(relative date)", format!("{:?} {:?} {}", a, b, d), a.checked_add((b, d)), V::Span)
        }
        49 => {
            let (a, b, d) = (g_span(r, &gen::ALL_UNITS), g_span(r, &gen::ALL_UNITS), g_zoned(r, z));
            res!("Span::checked_sub(relative zoned)", format!("{:?} {:?} {}", a, b, d), a.checked_sub((b, &d)), V::Span)
        }
        50 => {
            let (a, b) = (g_span(r, &gen::ALL_UNITS), g_sd(r));
            res!("Span::checked_add(sdur)", format!("{:?} {:?}", a, b), a.checked_add(b), V::Span)
        }
        51 | 52 | 53 | 54 => {
            let s = g_span(r, if op == 51 { &gen::TIME_UNITS } else { &gen::ALL_UNITS });
            let (sm, lg, inc, mode) = (g_unit(r), g_unit(r), g_inc(r), g_mode(r));
            let mut o = SpanRound::new().smallest(sm).increment(inc).mode(mode);
            if r.chance(2, 3) {
                o = o.largest(lg);
            }
            let desc = format!("{:?} {:?} {:?} {} {:?}", s, sm, lg, inc, mode);
            match op {
                51 => res!("Span::round(no relative)", desc, s.round(o), V::Span),
                52 => {
                    let d = g_date(r);
                    res!("Span::round(relative date)", format!("{} {}", desc, d), s.round(o.relative(d)), V::Span)
                }
                53 => {
                    let d = g_dt(r);
                    res!("Span::round(relative datetime)", format!("{} {}", desc, d), s.round(o.relative(d)), V::Span)
                }
                _ => {
                    let d = g_zoned(r, z);
                    res!("Span::round(relative zoned)", format!("{} {}", desc, d), s.round(o.relative(&d)), V::Span)
                }
            }
        }
        55 => {
            let s = g_span(r, &gen::ALL_UNITS);
            let o = SpanRound::new().smallest(g_unit(r)).increment(g_inc(r)).mode(g_mode(r)).days_are_24_hours();
            res!("Span::round(days_are_24_hours)", format!("{:?} {:?}", s, o), s.round(o), V::Span)
        }
        56 => {
            let (s, u) = (g_span(r, &gen::ALL_UNITS), g_unit(r));
            match r.below(4) {
                0 => res!("Span::total(no relative)", format!("{:?} {:?}", s, u), s.total(u), V::F64),
                1 => {
                    let d = g_date(r);
                    res!("Span::total(relative date)", format!("{:?} {:?} {}", s, u, d), s.total((u, d)), V::F64)
                }
                2 => {
                    let d = g_zoned(r, z);
                    res!("Span::total(relative zoned)", format!("{:?} {:?} {}", s, u, d), s.total((u, &d)), V::F64)
                }
                _ => res!("Span::total(days_are_24_hours)", format!("{:?} {:?}", s, u), s.total(SpanTotal::from(u).days_are_24_hours()), V::F64),
            }
        }
        57 => {
            let (a, b) = (g_span(r, &gen::ALL_UNITS), g_span(r, &gen::ALL_UNITS));
            let f = |o: std::cmp::Ordering| V::Str(format!("{:?}", o));
            match r.below(3) {
                0 => res!("Span::compare(no relative)", format!("{:?} {:?}", a, b), a.compare(b), f),
                1 => {
                    let d = g_date(r);
                    res!("Span::compare(relative date)", format!("{:?} {:?} {}", a, b, d), a.compare((b, d)), f)
                }
                _ => {
                    let d = g_zoned(r, z);
                    res!("Span::compare(relative zoned)", format!("{:?} {:?} {}", a, b, d), a.compare((b, &d)), f)
                }
            }
        }
        58 => {
            let s = g_span(r, &gen::ALL_UNITS);
            match r.below(4) {
                0 => {
                    let d = g_date(r);
                    res!("Span::to_duration(date)", format!("{:?} {}", s, d), s.to_duration(d), V::Sd)
                }
                1 => {
                    let d = g_zoned(r, z);
                    res!("Span::to_duration(zoned)", format!("{:?} {}", s, d), s.to_duration(&d), V::Sd)
                }
                2 => res!("Span::to_duration(days_are_24_hours)", format!("{:?}", s), s.to_duration(SpanRelativeTo::days_are_24_hours()), V::Sd),
                _ => res!("SignedDuration::try_from(Span)", format!("{:?}", s), SignedDuration::try_from(s), V::Sd),
            }
        }
        59 => {
            let d = g_sd(r);
            res!("Span::try_from(SignedDuration)", format!("{:?}", d), Span::try_from(d), V::Span)
        }
        60 => {
            let (d, u, inc, mode) = (g_sd(r), g_unit(r), g_inc(r), g_mode(r));
            res!("SignedDuration::round", format!("{:?} {:?} {} {:?}", d, u, inc, mode), d.round(SignedDurationRound::new().smallest(u).increment(inc).mode(mode)), V::Sd)
        }
        61 => {
            let f = match r.below(6) {
                0 => f64::from_bits(r.next()),
                1 => 9223372036854775808.0,
                2 => -9223372036854775808.0,
                3 => f64::NAN,
                4 => (r.f64() - 0.5) * 2e19,
                _ => (r.f64() - 0.5) * 1e6,
            };
            // 2^63 is known finding D9 (C12); it is not a panic / range / build-mode issue, so keep it out of C05's diff
            let f = if f == 9223372036854775808.0 { 9223372036854775807.0 * 0.5 } else { f };
            res!("SignedDuration::try_from_secs_f64", format!("{:016x}", f.to_bits()), SignedDuration::try_from_secs_f64(f), V::Sd)
        }
        62 => {
            let h = g_i8(r, -25, 25);
            res!("Offset::from_hours", format!("{}", h), Offset::from_hours(h), V::Off)
        }
        63 => {
            let s = r.biased_out(-93599, 93599).clamp(i32::MIN as i64, i32::MAX as i64) as i32;
            res!("Offset::from_seconds", format!("{}", s), Offset::from_seconds(s), V::Off)
        }
        64 => {
            let (o, s) = (g_off(r), g_span(r, &gen::ALL_UNITS));
            res!("Offset::checked_add(span)", format!("{} {:?}", o, s), o.checked_add(s), V::Off)
        }
        65 => {
            let (o, s) = (g_off(r), g_sd(r));
            res!("Offset::checked_sub(sdur)", format!("{} {:?}", o, s), o.checked_sub(s), V::Off)
        }
        66 => {
            let (o, u, inc, mode) = (g_off(r), g_unit(r), g_inc(r), g_mode(r));
            res!("Offset::round", format!("{} {:?} {} {:?}", o, u, inc, mode), o.round(OffsetRound::new().smallest(u).increment(inc).mode(mode)), V::Off)
        }
        67 => {
            let (o, d) = (g_off(r), g_dt(r));
            res!("Offset::to_timestamp", format!("{} {}", o, d), o.to_timestamp(d), V::Ts)
        }
        68 => {
            let (tz, d) = (r.pick(&z.tzs).clone(), g_dt(r));
            match r.below(3) {
                0 => res!("TimeZone::to_timestamp", format!("{:?} {}", tz.iana_name(), d), tz.to_timestamp(d), V::Ts),
                1 => res!("TimeZone::to_zoned", format!("{:?} {}", tz.iana_name(), d), tz.to_zoned(d), V::Zoned),
                _ => res!("TimeZone::to_fixed_offset", format!("{:?}", tz.iana_name()), tz.to_fixed_offset(), V::Off),
            }
        }
        69 => {
            let (tz, d) = (r.pick(&z.tzs).clone(), g_dt(r));
            let a = tz.to_ambiguous_timestamp(d);
            match r.below(5) {
                0 => res!("AmbiguousTimestamp::compatible", format!("{:?} {}", tz.iana_name(), d), a.compatible(), V::Ts),
                1 => res!("AmbiguousTimestamp::earlier", format!("{:?} {}", tz.iana_name(), d), a.earlier(), V::Ts),
                2 => res!("AmbiguousTimestamp::later", format!("{:?} {}", tz.iana_name(), d), a.later(), V::Ts),
                3 => res!("AmbiguousTimestamp::unambiguous", format!("{:?} {}", tz.iana_name(), d), a.unambiguous(), V::Ts),
                _ => {
                    let dis = *r.pick(&[Disambiguation::Compatible, Disambiguation::Earlier, Disambiguation::Later, Disambiguation::Reject]);
                    res!("AmbiguousZoned::disambiguate", format!("{:?} {} {:?}", tz.iana_name(), d, dis), tz.to_ambiguous_zoned(d).disambiguate(dis), V::Zoned)
                }
            }
        }
        70 => {
            let (tz, d, o) = (r.pick(&z.tzs).clone(), g_dt(r), g_off(r));
            let conflict = *r.pick(&[OffsetConflict::AlwaysOffset, OffsetConflict::AlwaysTimeZone, OffsetConflict::PreferOffset, OffsetConflict::Reject]);
            let o = if r.chance(1, 2) { tz.to_offset(g_ts(r)) } else { o };
            res!("OffsetConflict::resolve+compatible", format!("{:?} {} {} {:?}", tz.iana_name(), d, o, conflict), conflict.resolve(d, o, tz).and_then(|a| a.compatible()), V::Zoned)
        }
        71 => {
            let v = g_i8(r, 0, 7);
            let f = |w: Weekday| V::Str(format!("{:?}", w));
            match r.below(4) {
                0 => res!("Weekday::from_monday_zero_offset", format!("{}", v), Weekday::from_monday_zero_offset(v), f),
                1 => res!("Weekday::from_monday_one_offset", format!("{}", v), Weekday::from_monday_one_offset(v), f),
                2 => res!("Weekday::from_sunday_zero_offset", format!("{}", v), Weekday::from_sunday_zero_offset(v), f),
                _ => res!("Weekday::from_sunday_one_offset", format!("{}", v), Weekday::from_sunday_one_offset(v), f),
            }
        }
        72 => {
            // series: the n-th element must be in range
            let (d, p) = (g_dt(r), g_span(r, &gen::ALL_UNITS));
            let k = r.below(30) as usize;
            let item = d.series(p).nth(k);
            ("DateTime::series.nth", format!("{} {:?} {}", d, p, k), item.map(V::Dt).ok_or_else(|| "end".to_string()))
        }
        73 => {
            let (d, p) = (g_ts(r), g_span(r, &gen::TIME_UNITS));
            let k = r.below(30) as usize;
            let item = d.series(p).nth(k);
            ("Timestamp::series.nth", format!("{} {:?} {}", d, p, k), item.map(V::Ts).ok_or_else(|| "end".to_string()))
        }
        74 => {
            let (d, p) = (g_time(r), g_span(r, &gen::TIME_UNITS));
            let k = r.below(30) as usize;
            let item = d.series(p).nth(k);
            ("Time::series.nth", format!("{} {:?} {}", d, p, k), item.map(V::Time).ok_or_else(|| "end".to_string()))
        }
        75 => {
            let (t, tz) = (g_ts(r), r.pick(&z.tzs).clone());
            ("Timestamp::to_zoned", format!("{} {:?}", t, tz.iana_name()), Ok(V::Zoned(t.to_zoned(tz))))
        }
        76 => {
            let (a, tz) = (g_zoned(r, z), r.pick(&z.tzs).clone());
            ("Zoned::with_time_zone", format!("{} {:?}", a, tz.iana_name()), Ok(V::Zoned(a.with_time_zone(tz))))
        }
        77 => {
            // conversions to and from the standard library's unsigned duration, biased to the sub-second negatives
            let d = match r.below(4) {
                0 => SignedDuration::new(0, -(r.range(1, 999_999_999) as i32)),
                1 => SignedDuration::new(-(r.range(0, 3)), -(r.range(0, 999_999_999) as i32)),
                _ => g_sd(r),
            };
            ("std Duration::try_from(SignedDuration)", format!("{:?}", d), std::time::Duration::try_from(d).map(|u| V::Str(format!("{:?}", u))).map_err(|e| e.to_string()))
        }
        78 => {
            let u = std::time::Duration::new(match r.below(3) {
                0 => r.next(),
                1 => i64::MAX as u64 + r.below(3) - 1,
                _ => r.below(1 << 40),
            }, r.below(1_000_000_000) as u32);
            res!("SignedDuration::try_from(std Duration)", format!("{:?}", u), SignedDuration::try_from(u), V::Sd)
        }
        79 => {
            let d = match r.below(3) {
                0 => SignedDuration::new(0, -(r.range(1, 999_999_999) as i32)),
                _ => g_sd(r),
            };
            let t = g_ts(r);
            res!("Timestamp::checked_add(SignedDuration)", format!("{} {:?}", t, d), t.checked_add(d), V::Ts)
        }
        _ => {
            let (d, s) = (g_date(r), g_span(r, &gen::ALL_UNITS));
            let k = r.below(30) as usize;
            let item = d.series(s).nth(k);
            ("Date::series.nth", format!("{} {:?} {}", d, s, k), item.map(V::Date).ok_or_else(|| "end".to_string()))
        }
    }
}

/// Run case `index` of shard `shard`; returns the canonical result string.
pub fn run_case(cx: &mut Ctx, z: &Zones, shard: u64, index: u64, verbose: bool) -> String {
    let mut r = Rng::new(hash_mix(hash_mix(cx.seed, shard.wrapping_mul(0x9E37) ^ 0xc05), index));
    let op = r.below(N_OPS);
    let mut api_seen: &'static str = "?";
    let mut args_seen = String::new();
    let res = guard(|| {
        let mut rr = r.clone();
        exec(op, &mut rr, z)
    });
    cx.eval(1);
    let nshards = cx.nshards;
    let case = || format!("case|{}|{}|{}", nshards, shard, index);
    let out = match res {
        Err(p) => {
            // figure out which API it was (generation itself does not panic)
            let class = format!("panic@{}[op{}]", p.loc(), op);
            cx.violation(&class, case, || "Ok|Err".into(), || p.what.clone());
            format!("Panic@{}", p.loc())
        }
        Ok((api, args, result)) => {
            api_seen = api;
            args_seen = args;
            cx.count(&format!("api:{}", api), 1);
            match result {
                Ok(v) => {
                    cx.count("ok_results", 1);
                    if let Err(why) = guard(|| v.in_range()).unwrap_or_else(|p| Err(format!("range predicate panicked: {}", p.what))) {
                        cx.violation(&format!("{}/ok-value-out-of-range", api), case, || "value inside its documented range".into(), || format!("{} ({}) args: {}", v.canon(), why, args_seen));
                    }
                    format!("Ok({})", v.canon())
                }
                Err(_) => {
                    cx.count("err_results", 1);
                    "Err".to_string()
                }
            }
        }
    };
    if verbose {
        println!("op {} api {} args [{}] => {}", op, api_seen, args_seen, out);
    }
    out
}

pub fn run(cx: &mut Ctx) {
    let z = Zones::new();
    if let Some(case) = cx.case.clone() {
        let p: Vec<&str> = case.split('|').collect();
        if p.len() == 4 {
            cx.nshards = p[1].parse().unwrap_or(16);
            let s = run_case(cx, &z, p[2].parse().unwrap_or(0), p[3].parse().unwrap_or(0), true);
            println!("RESULT {}", s);
        } else {
            cx.inconclusive("bad case");
        }
        return;
    }
    let n = cx.budget(32_000_000, 800_000_000);
    let mut hashes: Vec<u8> = Vec::with_capacity(n as usize * 8);
    let shard = cx.shard;
    for i in 0..n {
        let s = run_case(cx, &z, shard, i, false);
        let h = hash64(s.as_bytes());
        hashes.extend_from_slice(&h.to_le_bytes());
        if i % 7 == 0 {
            cx.nontrivial(hash_mix(h, i));
        }
        if i % 500_000 == 1 {
            let mut r = Rng::new(hash_mix(hash_mix(cx.seed, shard.wrapping_mul(0x9E37) ^ 0xc05), i));
            let op = r.below(N_OPS);
            if let Ok((api, args, _)) = guard(|| exec(op, &mut r, &z)) {
                cx.sample(|| format!("{}({}) => {}", api, args, s));
            }
        }
    }
    if let Some(out) = &cx.out {
        let _ = std::fs::write(format!("{}.c05", out), &hashes);
    }
    cx.count("cases", n);
}

//! C04 — civil -> instant resolution: gaps, folds, strategies.

use crate::cal::Civ;
use crate::rep::{guard, Ctx};
use crate::rng::{hash64, hash_mix, Rng};
use crate::tzmon::{self, civ_of, dt_of, Corrob};
use crate::tzref::Zone;
use crate::zones::{self, ZoneCase, TS_MAX, TS_MIN};
use jiff::civil::DateTime;
use jiff::tz::{AmbiguousOffset, Disambiguation, TimeZone};
use jiff::Timestamp;

#[derive(Clone, Debug, PartialEq, Eq)]
pub enum Class {
    Unambiguous(i32),
    Gap(i32, i32),
    Fold(i32, i32),
    /// three or more instants show this civil time: outside the trichotomy
    Multi(usize),
    /// more than one gap candidate (pathological back-to-back transitions)
    Unclear,
}

const NS: i128 = 1_000_000_000;

/// Instants (ns) that display civil `c` according to `lookup`.
fn solutions(offsets: &[i32], c: Civ, lookup: &dyn Fn(i64) -> Option<i32>) -> Option<Vec<(i128, i32)>> {
    let cn = c.to_ns();
    let mut v = Vec::new();
    for &o in offsets {
        let t = cn - o as i128 * NS;
        let sec = t.div_euclid(NS) as i64;
        match lookup(sec) {
            Some(x) => {
                if x == o {
                    v.push((t, o));
                }
            }
            None => return None,
        }
    }
    v.sort();
    Some(v)
}

/// Classification by counting the instants that display `c`, using the model.
pub fn model_classify(model: &Zone, c: Civ) -> Class {
    let offs = model.offsets();
    let sol = solutions(&offs, c, &|s| Some(model.utoff(s))).unwrap();
    match sol.len() {
        1 => Class::Unambiguous(sol[0].1),
        2 => Class::Fold(sol[0].1, sol[1].1),
        0 => {
            // find the forward jump(s) whose skipped window contains c
            let cn = c.to_ns();
            let csec = cn.div_euclid(NS) as i64;
            let lo = csec - 100_000 - 90_000;
            let hi = csec + 100_000 + 90_000;
            let (ylo, _, _) = crate::cal::civil_from_days(lo.div_euclid(86400));
            let (yhi, _, _) = crate::cal::civil_from_days(hi.div_euclid(86400));
            let years: Vec<i64> = (ylo - 1..=yhi + 1).collect();
            let mut hits = Vec::new();
            for t in model.changes(lo, hi, &years) {
                let o1 = model.utoff(t - 1);
                let o2 = model.utoff(t);
                if o2 > o1 {
                    let ws = (t as i128 + o1 as i128) * NS;
                    let we = (t as i128 + o2 as i128) * NS;
                    if ws <= cn && cn < we {
                        hits.push((o1, o2));
                    }
                }
            }
            if hits.len() == 1 {
                Class::Gap(hits[0].0, hits[0].1)
            } else {
                Class::Unclear
            }
        }
        n => Class::Multi(n),
    }
}

fn jiff_class(a: AmbiguousOffset) -> Class {
    match a {
        AmbiguousOffset::Unambiguous { offset } => Class::Unambiguous(offset.seconds()),
        AmbiguousOffset::Gap { before, after } => Class::Gap(before.seconds(), after.seconds()),
        AmbiguousOffset::Fold { before, after } => Class::Fold(before.seconds(), after.seconds()),
    }
}

fn ts_of_ns(t: i128) -> Option<Timestamp> {
    Timestamp::from_nanosecond(t).ok()
}

fn in_ts_range(t: i128) -> bool {
    t >= TS_MIN as i128 * NS && t <= TS_MAX as i128 * NS + 999_999_999
}

/// Expected instant (ns) for a strategy; None = must be Err.
fn expected_instant(class: &Class, c: Civ, strat: Disambiguation) -> Option<Option<i128>> {
    let cn = c.to_ns();
    let with = |o: i32| cn - o as i128 * NS;
    let r = match (class, strat) {
        (Class::Unambiguous(o), _) => Some(with(*o)),
        (Class::Fold(b, _), Disambiguation::Compatible) | (Class::Fold(b, _), Disambiguation::Earlier) => Some(with(*b)),
        (Class::Fold(_, a), Disambiguation::Later) => Some(with(*a)),
        (Class::Gap(b, _), Disambiguation::Compatible) | (Class::Gap(b, _), Disambiguation::Later) => Some(with(*b)),
        (Class::Gap(_, a), Disambiguation::Earlier) => Some(with(*a)),
        (Class::Fold(..), Disambiguation::Reject) | (Class::Gap(..), Disambiguation::Reject) => None,
        _ => return None,
    };
    Some(r.filter(|t| in_ts_range(*t)))
}

pub fn check_civil(cx: &mut Ctx, z: &ZoneCase, c: Civ, full: bool) {
    let Some(dt) = dt_of(c) else { return };
    let case = || format!("{}|{}|{}", z.id, c.day, c.nod);
    let mclass = model_classify(&z.model, c);
    let tz = &z.tz;
    let got = guard(|| jiff_class(tz.to_ambiguous_timestamp(dt).offset()));
    cx.eval(1);
    let jclass = match got {
        Ok(x) => x,
        Err(p) => {
            cx.violation(&format!("to_ambiguous_timestamp/panic@{}", p.loc()), case, || format!("{:?}", mclass), || p.what.clone());
            return;
        }
    };
    if matches!(mclass, Class::Multi(_) | Class::Unclear) {
        cx.count("outside_trichotomy_no_verdict", 1);
        return;
    }
    // oracle (a): the statement's self-consistency with jiff's own forward map
    let offs = z.model.offsets();
    let own = guard(|| {
        solutions(&offs, c, &|s| {
            if s < TS_MIN || s >= TS_MAX {
                return None;
            }
            Timestamp::new(s, 0).ok().map(|t| tz.to_offset(t).seconds())
        })
    });
    let mut own_ok = true;
    if let Ok(Some(sol)) = &own {
        cx.eval(1);
        let consistent = match (&jclass, sol.len()) {
            (Class::Unambiguous(o), 1) => sol[0].1 == *o,
            (Class::Fold(b, a), 2) => sol[0].1 == *b && sol[1].1 == *a,
            (Class::Gap(..), 0) => true,
            (_, n) if n >= 3 => true,
            _ => false,
        };
        if !consistent {
            own_ok = false;
            cx.violation(&format!("to_ambiguous_timestamp/inconsistent-with-own-forward-map[{}]", z.src), case, || format!("instants displaying it per jiff's to_offset: {:?}", sol), || format!("{:?}", jclass));
        }
    }
    // oracle (b): the reference model
    cx.eval(1);
    if jclass != mclass {
        if own_ok {
            cx.violation(&format!("to_ambiguous_timestamp/classification[{}]", z.src), case, || format!("{:?}", mclass), || format!("{:?}", jclass));
        }
        return;
    }
    match mclass {
        Class::Gap(..) => cx.count("gaps", 1),
        Class::Fold(..) => cx.count("folds", 1),
        _ => cx.count("unambiguous", 1),
    }
    if !full {
        return;
    }
    // strategies
    let strategies = [Disambiguation::Compatible, Disambiguation::Earlier, Disambiguation::Later, Disambiguation::Reject];
    for (si, strat) in strategies.iter().enumerate() {
        let Some(exp) = expected_instant(&mclass, c, *strat) else { continue };
        let r = guard(|| {
            let a = tz.to_ambiguous_timestamp(dt);
            let via_dis = a.disambiguate(*strat).ok().map(|t| t.as_nanosecond());
            let named = match si {
                0 => a.compatible(),
                1 => a.earlier(),
                2 => a.later(),
                _ => a.unambiguous(),
            }
            .ok()
            .map(|t| t.as_nanosecond());
            let az = tz.to_ambiguous_zoned(dt);
            let zoned = az.disambiguate(*strat).ok();
            let zinfo = zoned.as_ref().map(|z| (z.timestamp().as_nanosecond(), z.offset().seconds(), civ_of(z.datetime())));
            (via_dis, named, zinfo)
        });
        cx.eval(3);
        match r {
            Err(p) => cx.violation(&format!("disambiguate/panic@{}", p.loc()), case, || format!("{:?}", exp), || p.what.clone()),
            Ok((via_dis, named, zinfo)) => {
                let sname = ["compatible", "earlier", "later", "reject"][si];
                if via_dis != exp {
                    cx.violation(&format!("AmbiguousTimestamp::disambiguate({})[{}]", sname, z.src), case, || format!("{:?} for {:?}", exp, mclass), || format!("{:?}", via_dis));
                }
                if named != exp {
                    cx.violation(&format!("AmbiguousTimestamp::{}[{}]", if si == 3 { "unambiguous" } else { sname }, z.src), case, || format!("{:?} for {:?}", exp, mclass), || format!("{:?}", named));
                }
                if zinfo.map(|x| x.0) != exp {
                    cx.violation(&format!("AmbiguousZoned::disambiguate({})[{}]", sname, z.src), case, || format!("{:?} for {:?}", exp, mclass), || format!("{:?}", zinfo));
                } else if let (Some((t, o, shown)), Some(_)) = (zinfo, exp) {
                    // the zoned value must be consistent, and for a non-gap
                    // civil time it must display that same civil time
                    let mo = z.model.utoff(t.div_euclid(NS) as i64);
                    if o != mo {
                        cx.violation(&format!("AmbiguousZoned/offset-of-result[{}]", z.src), case, || format!("{}", mo), || format!("{}", o));
                    }
                    if !matches!(mclass, Class::Gap(..)) && shown != c {
                        cx.violation(&format!("non-gap-result-displays-other-civil-time[{}]", z.src), case, || format!("{:?}", c), || format!("{:?}", shown));
                    }
                }
            }
        }
    }
    // convenience entry points (compatible strategy)
    let Some(exp) = expected_instant(&mclass, c, Disambiguation::Compatible) else { return };
    let r = guard(|| {
        let a = tz.to_timestamp(dt).ok().map(|t| t.as_nanosecond());
        let b = tz.to_zoned(dt).ok().map(|z| z.timestamp().as_nanosecond());
        let d = dt.to_zoned(tz.clone()).ok().map(|z| (z.timestamp().as_nanosecond(), z.offset().seconds()));
        (a, b, d)
    });
    cx.eval(3);
    match r {
        Err(p) => cx.violation(&format!("to_zoned/panic@{}", p.loc()), case, || format!("{:?}", exp), || p.what.clone()),
        Ok((a, b, d)) => {
            if a != exp {
                cx.violation(&format!("TimeZone::to_timestamp[{}]", z.src), case, || format!("{:?}", exp), || format!("{:?}", a));
            }
            if b != exp {
                cx.violation(&format!("TimeZone::to_zoned[{}]", z.src), case, || format!("{:?}", exp), || format!("{:?}", b));
            }
            if d.map(|x| x.0) != exp {
                cx.violation(&format!("DateTime::to_zoned[{}]", z.src), case, || format!("{:?}", exp), || format!("{:?}", d));
            } else if let Some((t, o)) = d {
                let mo = z.model.utoff(t.div_euclid(NS) as i64);
                if o != mo {
                    cx.violation(&format!("DateTime::to_zoned/offset[{}]", z.src), case, || format!("{}", mo), || format!("{}", o));
                }
            }
        }
    }
}

/// Civil probes around the wall-clock window of every change.
pub fn civil_probes(model: &Zone, years: &[i64], r: &mut Rng, n_random: usize, limit_before: Option<i64>) -> (Vec<Civ>, Vec<i64>) {
    let mut v: Vec<Civ> = Vec::new();
    let mut changes = model.changes(TS_MIN, TS_MAX, years);
    if let Some(lim) = limit_before {
        changes.retain(|&t| t < lim - 3 * 86400);
    }
    for &t in &changes {
        let o1 = model.utoff(t - 1) as i128;
        let o2 = model.utoff(t) as i128;
        if o1 == o2 {
            continue;
        }
        let a = (t as i128 + o1.min(o2)) * NS;
        let b = (t as i128 + o1.max(o2)) * NS;
        for p in [a - NS, a - 1, a, a + 1, a + NS, (a + b) / 2, b - NS, b - 1, b, b + 1, b + NS, a + 500_000_000, b - 500_000_000] {
            v.push(Civ::from_ns(p));
        }
    }
    // every instant at which a rule fires, whether or not anything changes there (a DST period may be empty or
    // shorter than the offset difference): the wall clock readings around it under every offset of the zone
    let offs = model.offsets();
    for t in model.candidates(TS_MIN, TS_MAX, years) {
        if t <= TS_MIN + 200_000 || t >= TS_MAX - 200_000 || limit_before.is_some_and(|lim| t >= lim - 3 * 86400) {
            continue;
        }
        for &o in &offs {
            let a = (t as i128 + o as i128) * NS;
            for d in [-3600 * NS, -NS, -1, 0, 1, NS, 1800 * NS, 3599 * NS, 3600 * NS, 5400 * NS] {
                v.push(Civ::from_ns(a + d));
            }
        }
    }
    let min = crate::cal::MIN_DAY as i128 * crate::cal::NS_DAY;
    let max = (crate::cal::MAX_DAY as i128 + 1) * crate::cal::NS_DAY - 1;
    for k in 0..27 {
        for p in [min + k * 3600 * NS, min + k * 3600 * NS + 1, max - k * 3600 * NS, max - k * 3600 * NS - 1] {
            v.push(Civ::from_ns(p));
        }
    }
    for _ in 0..n_random {
        let p = r.range128(min, max);
        let p = if r.chance(1, 2) { p - p.rem_euclid(NS) } else { p };
        if let Some(lim) = limit_before {
            if p.div_euclid(NS) as i64 > lim - 400 * 86400 {
                continue;
            }
        }
        v.push(Civ::from_ns(p));
    }
    v.retain(|c| c.in_range());
    (v, changes)
}

pub fn check_zone(cx: &mut Ctx, z: &ZoneCase, c: &Corrob, years: &[i64], r: &mut Rng, n_random: usize) {
    if !c.ok() {
        cx.count("zones_uncorroborated_no_verdict", 1);
        return;
    }
    // known finding D10: the rule part of such zones gives no verdict here
    let limit = if z.model.d10_zone() {
        cx.count("zones_rule_part_skipped_D10", 1);
        Some(z.model.rule_from().max(TS_MIN - 10 * 86400))
    } else {
        None
    };
    let (probes, changes) = civil_probes(&z.model, years, r, n_random, limit);
    let zh = hash64(z.id.as_bytes());
    for &t in &changes {
        if z.model.utoff(t - 1) != z.model.utoff(t) {
            cx.nontrivial(hash_mix(zh, t as u64));
        }
    }
    cx.count("offset_changes_probed", changes.len() as u64);
    for (i, &p) in probes.iter().enumerate() {
        if let Some(lim) = limit {
            if p.to_ns().div_euclid(NS) as i64 > lim - 3 * 86400 {
                continue;
            }
        }
        check_civil(cx, z, p, true);
        if i == probes.len() / 3 {
            cx.sample(|| format!("{} civil {:?} {:?} -> {:?}", z.id, p.ymd(), p.hms(), model_classify(&z.model, p)));
        }
    }
    cx.count("civil_probes", probes.len() as u64);
    cx.count("zones", 1);
}

pub fn gather_zones(cx: &mut Ctx, n_posix_quick: u64, n_posix_thorough: u64) -> Vec<ZoneCase> {
    let ids = zones::corpus_ids(&cx.work);
    let stride = cx.opt_u64("zone_stride", 1);
    let mut zs: Vec<ZoneCase> = Vec::new();
    for (i, id) in ids.iter().enumerate() {
        if !cx.mine(i as u64) || (i as u64 / cx.nshards) % stride != 0 {
            continue;
        }
        match zones::resolve(id, &cx.work) {
            Ok(z) => zs.push(z),
            Err(e) => {
                cx.count("zones_unloadable", 1);
                cx.note(format!("skipped {}: {}", id, e));
            }
        }
    }
    cx.count("synthetic_zones", zs.iter().filter(|z| z.src.starts_with("synth")).count() as u64);
    let mut strings: Vec<String> = Vec::new();
    for (i, s) in zones::FIXED_POSIX.iter().enumerate() {
        if cx.mine(i as u64) {
            strings.push(s.to_string());
        }
    }
    let n = cx.budget(n_posix_quick, n_posix_thorough);
    let mut pr = Rng::new(hash_mix(cx.shard_seed(), 77));
    for _ in 0..n {
        strings.push(zones::gen_posix(&mut pr));
    }
    for s in strings {
        match zones::from_posix(&s) {
            Ok(z) => {
                zs.push(z);
                cx.count("posix_strings", 1);
            }
            Err(e) => {
                cx.count("posix_strings_rejected", 1);
                cx.note(format!("posix string not usable: {}", e));
            }
        }
    }
    for (i, o) in [0i32, 1, -1, 59, -59, 3600, -3600, 19800, 93599, -93599, 12 * 3600 + 45 * 60].iter().enumerate() {
        if cx.mine(i as u64) {
            if let Ok(z) = zones::resolve(&format!("fixed:{}", o), &cx.work) {
                zs.push(z);
            }
        }
    }
    zs
}

pub fn run(cx: &mut Ctx) {
    if let Some(case) = cx.case.clone() {
        return replay(cx, &case);
    }
    let mut r = Rng::new(cx.shard_seed());
    let years = zones::probe_years(&mut Rng::new(cx.seed), cx.thorough);
    let zs = gather_zones(cx, 300, 5000);
    let cor = tzmon::corroborate_all(&zs, &cx.work, &years);
    let n_random = if cx.thorough { 2000 } else { 200 };
    for (z, c) in zs.iter().zip(cor.iter()) {
        check_zone(cx, z, c, &years, &mut r, if z.src == "posix" { 40 } else { n_random });
    }
    let _ = TimeZone::UTC;
    let _: Option<DateTime> = None;
}

fn replay(cx: &mut Ctx, case: &str) {
    let parts: Vec<&str> = case.rsplitn(3, '|').collect();
    if parts.len() != 3 {
        cx.inconclusive("bad case");
        return;
    }
    let (nod, day, id) = (parts[0].parse::<i64>().unwrap_or(0), parts[1].parse::<i64>().unwrap_or(0), parts[2]);
    match zones::resolve(id, &cx.work) {
        Ok(z) => {
            let c = Civ { day, nod };
            println!("civil {:?} {:?}", c.ymd(), c.hms());
            println!("model: {:?}", model_classify(&z.model, c));
            if let Some(dt) = dt_of(c) {
                println!("jiff : {:?}", guard(|| z.tz.to_ambiguous_timestamp(dt).offset()));
            }
            check_civil(cx, &z, c, true);
        }
        Err(e) => cx.inconclusive(e),
    }
}

//! C01 — civil calendar facts are exactly the proleptic Gregorian calendar.
//! Exhaustive sweep of all 7,304,484 dates against the odometer model, all
//! constructor triples, all ISO triples, all nth-weekday-of-month queries.

use crate::cal::{self, Odo};
use crate::rep::{guard, Ctx};
use crate::rng::{hash64, Rng};
use crate::shared::util::itime as st;
use jiff::civil::{Date, Era, ISOWeekDate, Weekday};
use jiff::{tz::TimeZone, Unit};

fn wd(n: i64) -> Weekday {
    Weekday::from_monday_one_offset(n as i8).unwrap()
}

macro_rules! chk {
    ($cx:expr, $class:expr, $case:expr, $exp:expr, $got:expr) => {{
        $cx.eval(1);
        let e = $exp;
        let g = $got;
        if e != g {
            $cx.violation($class, || $case, || format!("{:?}", e), || format!("{:?}", g));
        }
    }};
}

fn check_date(cx: &mut Ctx, o: &Odo, prev: Option<&Odo>, next: Option<&Odo>, epoch: Date, utc: &TimeZone) {
    let case = || format!("date:{},{},{}", o.y, o.m, o.d);
    let r = guard(|| Date::new(o.y as i16, o.m as i8, o.d as i8));
    let d = match r {
        Ok(Ok(d)) => d,
        Ok(Err(e)) => {
            cx.violation("Date::new/rejects-valid", case, || "Ok".into(), || format!("Err({})", e));
            return;
        }
        Err(p) => {
            cx.violation(&format!("Date::new/panic@{}", p.loc()), case, || "Ok".into(), || p.what.clone());
            return;
        }
    };
    let res = guard(|| {
        let mut out: Vec<(&'static str, String, String)> = Vec::new();
        let mut c = |class: &'static str, e: String, g: String| {
            if e != g {
                out.push((class, e, g));
            }
        };
        macro_rules! eq {
            ($class:expr, $e:expr, $g:expr) => {
                c($class, format!("{:?}", $e), format!("{:?}", $g))
            };
        }
        eq!("Date::year/month/day", (o.y, o.m, o.d), (d.year() as i64, d.month() as i64, d.day() as i64));
        eq!("Date::weekday", o.wd, d.weekday().to_monday_one_offset() as i64);
        eq!("Weekday::sunday-offsets", (o.wd % 7, o.wd % 7 + 1, o.wd - 1), (d.weekday().to_sunday_zero_offset() as i64, d.weekday().to_sunday_one_offset() as i64, d.weekday().to_monday_zero_offset() as i64));
        eq!("Date::day_of_year", o.doy, d.day_of_year() as i64);
        let leap = cal::is_leap(o.y);
        let nl = if leap && o.doy == 60 {
            None
        } else if leap && o.doy > 60 {
            Some(o.doy - 1)
        } else {
            Some(o.doy)
        };
        eq!("Date::day_of_year_no_leap", nl, d.day_of_year_no_leap().map(|x| x as i64));
        // ... and back: the day of the year names this date again, from anywhere in the same year
        let ymd0 = |x: Result<Date, jiff::Error>| x.ok().map(|x| (x.year() as i64, x.month() as i64, x.day() as i64));
        for from in [d, d.first_of_year(), d.last_of_year()] {
            eq!("DateWith::day_of_year", Some((o.y, o.m, o.d)), ymd0(from.with().day_of_year(o.doy as i16).build()));
            if let Some(nl) = nl {
                eq!("DateWith::day_of_year_no_leap", Some((o.y, o.m, o.d)), ymd0(from.with().day_of_year_no_leap(nl as i16).build()));
            }
        }
        if o.doy == 1 {
            let diy = cal::days_in_year(o.y);
            eq!("DateWith::day_of_year/invalid", (None::<(i64, i64, i64)>, None::<(i64, i64, i64)>, None::<(i64, i64, i64)>), (ymd0(d.with().day_of_year(0).build()), ymd0(d.with().day_of_year(diy as i16 + 1).build()), ymd0(d.with().day_of_year_no_leap(366).build())));
        }
        let dim = cal::days_in_month(o.y, o.m);
        eq!("Date::days_in_month", dim, d.days_in_month() as i64);
        eq!("Date::in_leap_year", leap, d.in_leap_year());
        eq!("Date::days_in_year", cal::days_in_year(o.y), d.days_in_year() as i64);
        let ymd = |x: Date| (x.year() as i64, x.month() as i64, x.day() as i64);
        eq!("Date::first_of_month", (o.y, o.m, 1), ymd(d.first_of_month()));
        eq!("Date::last_of_month", (o.y, o.m, dim), ymd(d.last_of_month()));
        eq!("Date::first_of_year", (o.y, 1, 1), ymd(d.first_of_year()));
        eq!("Date::last_of_year", (o.y, 12, 31), ymd(d.last_of_year()));
        let era = if o.y >= 1 { (o.y, true) } else { (1 - o.y, false) };
        let (ey, ee) = d.era_year();
        eq!("Date::era_year", era, (ey as i64, ee == Era::CE));
        // next / previous day
        eq!("Date::tomorrow", next.map(|n| (n.y, n.m, n.d)), d.tomorrow().ok().map(ymd));
        eq!("Date::yesterday", prev.map(|n| (n.y, n.m, n.d)), d.yesterday().ok().map(ymd));
        // day count observed publicly, three ways
        eq!("Date::until(Day)", Some(o.n), epoch.until((Unit::Day, d)).ok().map(|s| s.get_days() as i64));
        eq!("Date::since(Day)", Some(o.n), d.since((Unit::Day, epoch)).ok().map(|s| s.get_days() as i64));
        eq!("Date::duration_until", o.n * 86400, epoch.duration_until(d).as_secs());
        eq!("Date::duration_since", o.n * 86400, d.duration_since(epoch).as_secs());
        eq!("Date-Date", o.n, (d - epoch).get_days() as i64);
        // midnight UTC of the first and last day lie outside Timestamp's range
        let ts = o.n * 86400;
        let ts_exp = if (crate::zones::TS_MIN..=crate::zones::TS_MAX).contains(&ts) { Some(ts) } else { None };
        eq!("Date::to_zoned(UTC).timestamp", ts_exp, d.to_zoned(utc.clone()).ok().map(|z| z.timestamp().as_second()));
        // ISO week date
        let (iy, iw, iwd) = cal::iso_week(o.y, o.m, o.d);
        let w = d.iso_week_date();
        eq!("Date::iso_week_date", (iy, iw, iwd), (w.year() as i64, w.week() as i64, w.weekday().to_monday_one_offset() as i64));
        eq!("ISOWeekDate::date(roundtrip)", (o.y, o.m, o.d), ymd(w.date()));
        eq!("Date::from_iso_week_date", (o.y, o.m, o.d), ymd(Date::from_iso_week_date(w)));
        eq!("ISOWeekDate::new", Some((o.y, o.m, o.d)), ISOWeekDate::new(iy as i16, iw as i8, wd(iwd)).ok().map(|x| ymd(x.date())));
        eq!("ISOWeekDate::weeks_in_year", cal::iso_weeks_in_year(iy), w.weeks_in_year() as i64);
        // nth_weekday(+-1, each weekday): strictly after / before
        for t in 1..=7i64 {
            let fwd = {
                let mut delta = (t - o.wd).rem_euclid(7);
                if delta == 0 {
                    delta = 7;
                }
                o.n + delta
            };
            let bwd = {
                let mut delta = (o.wd - t).rem_euclid(7);
                if delta == 0 {
                    delta = 7;
                }
                o.n - delta
            };
            let exp = |z: i64| if (cal::MIN_DAY..=cal::MAX_DAY).contains(&z) { Some(cal::civil_from_days(z)) } else { None };
            eq!("Date::nth_weekday(+1)", exp(fwd), d.nth_weekday(1, wd(t)).ok().map(ymd));
            eq!("Date::nth_weekday(-1)", exp(bwd), d.nth_weekday(-1, wd(t)).ok().map(ymd));
        }
        // the jiff-static copy of itime.rs
        let sd = st::IDate { year: o.y as i16, month: o.m as i8, day: o.d as i8 };
        eq!("static:IDate::to_epoch_day", o.n, sd.to_epoch_day().epoch_day as i64);
        let back = st::IEpochDay { epoch_day: o.n as i32 }.to_date();
        eq!("static:IEpochDay::to_date", (o.y, o.m, o.d), (back.year as i64, back.month as i64, back.day as i64));
        eq!("static:IDate::weekday", o.wd, sd.weekday().to_monday_one_offset() as i64);
        eq!("static:days_in_month", dim, st::days_in_month(o.y as i16, o.m as i8) as i64);
        eq!("static:is_leap_year", leap, st::is_leap_year(o.y as i16));
        eq!("static:IDate::try_new", true, st::IDate::try_new(o.y as i16, o.m as i8, o.d as i8).is_ok());
        eq!("static:tomorrow", next.map(|n| (n.y, n.m, n.d)), sd.tomorrow().ok().map(|x| (x.year as i64, x.month as i64, x.day as i64)));
        eq!("static:yesterday", prev.map(|n| (n.y, n.m, n.d)), sd.yesterday().ok().map(|x| (x.year as i64, x.month as i64, x.day as i64)));
        out
    });
    cx.eval(50);
    match res {
        Ok(out) => {
            for (class, e, g) in out {
                cx.violation(class, case, || e.clone(), || g.clone());
            }
        }
        Err(p) => cx.violation(&format!("Date::*/panic@{}", p.loc()), case, || "no panic".into(), || p.what.clone()),
    }
}

fn sweep_dates(cx: &mut Ctx) {
    let epoch = Date::new(1970, 1, 1).unwrap();
    let utc = TimeZone::UTC;
    // anchor of the statement
    chk!(cx, "anchor/1970-01-01-is-Thursday", "date:1970,1,1".to_string(), 4, epoch.weekday().to_monday_one_offset());
    let sparse = cx.opt("sparse").is_some();
    let mut o = Odo::at_min();
    let mut prev: Option<Odo> = None;
    let mut idx: u64 = 0;
    loop {
        let last = o.y == cal::MAX_YEAR && o.m == 12 && o.d == 31;
        let mut nx = o;
        nx.next();
        let next = if last { None } else { Some(nx) };
        let dim = cal::days_in_month(o.y, o.m);
        if cx.mine(idx / 1024) {
            let boundary = o.d <= 2 || o.d >= dim - 1 || (o.m == 2 && o.d >= 27);
            if !sparse || boundary || idx % 8 == 0 {
                check_date(cx, &o, prev.as_ref(), next.as_ref(), epoch, &utc);
                let (iy, _, _) = cal::iso_week(o.y, o.m, o.d);
                if boundary || iy != o.y {
                    cx.nontrivial(hash64(format!("d{}", o.n).as_bytes()));
                }
                if idx % 500_000 == 0 {
                    cx.sample(|| format!("date {:04}-{:02}-{:02} day#{} wd{} doy{} iso{:?}", o.y, o.m, o.d, o.n, o.wd, o.doy, cal::iso_week(o.y, o.m, o.d)));
                }
                cx.count("dates_checked", 1);
            }
        }
        if last {
            break;
        }
        prev = Some(o);
        o = nx;
        idx += 1;
    }
}

fn years() -> Vec<i64> {
    let mut v: Vec<i64> = (-9999..=9999).collect();
    v.extend([i16::MIN as i64, -10000, 10000, i16::MAX as i64]);
    v
}

fn sweep_ctor(cx: &mut Ctx) {
    let months: Vec<i64> = [-128, -1, 0].into_iter().chain(1..=12).chain([13, 127]).collect();
    let days: Vec<i64> = [-128, -1, 0].into_iter().chain(1..=32).chain([127]).collect();
    for (i, y) in years().into_iter().enumerate() {
        if !cx.mine(i as u64) {
            continue;
        }
        for &m in &months {
            for &d in &days {
                let exp = cal::valid(y, m, d);
                let got = guard(|| Date::new(y as i16, m as i8, d as i8));
                cx.eval(1);
                match got {
                    Ok(r) => {
                        if r.is_ok() != exp {
                            cx.violation("Date::new/validity", || format!("new:{},{},{}", y, m, d), || format!("ok={}", exp), || format!("{:?}", r));
                        }
                        if let Ok(dt) = r {
                            if (dt.year() as i64, dt.month() as i64, dt.day() as i64) != (y, m, d) {
                                cx.violation("Date::new/fields", || format!("new:{},{},{}", y, m, d), || format!("{:?}", (y, m, d)), || format!("{:?}", dt));
                            }
                        }
                        let sgot = st::IDate::try_new(y as i16, m as i8, d as i8).is_ok();
                        // the static copy documents that it assumes a valid year and month and day >= 1
                        if (-9999..=9999).contains(&y) && (1..=12).contains(&m) && d >= 1 && sgot != exp {
                            cx.violation("static:IDate::try_new/validity", || format!("new:{},{},{}", y, m, d), || format!("ok={}", exp), || format!("ok={}", sgot));
                        }
                    }
                    Err(p) => cx.violation(&format!("Date::new/panic@{}", p.loc()), || format!("new:{},{},{}", y, m, d), || "Ok|Err".into(), || p.what.clone()),
                }
                if !exp && m >= 1 && m <= 12 && d >= 28 && d <= 32 {
                    cx.nontrivial(hash64(format!("n{},{},{}", y, m, d).as_bytes()));
                }
            }
        }
    }
}

fn check_iso(cx: &mut Ctx, y: i64, w: i64, t: i64) {
    let case = || format!("iso:{},{},{}", y, w, t);
    let z = cal::days_from_iso(y, w, t);
    let exp_ok = (-9999..=9999).contains(&y) && w >= 1 && w <= cal::iso_weeks_in_year(y.clamp(-9999, 9999)) && (cal::MIN_DAY..=cal::MAX_DAY).contains(&z);
    let got = guard(|| ISOWeekDate::new(y as i16, w as i8, wd(t)));
    cx.eval(1);
    match got {
        Ok(r) => {
            if r.is_ok() != exp_ok {
                cx.violation("ISOWeekDate::new/validity", case, || format!("ok={}", exp_ok), || format!("{:?}", r));
            } else if let Ok(x) = r {
                let g = guard(|| {
                    let d = x.date();
                    ((d.year() as i64, d.month() as i64, d.day() as i64), (x.year() as i64, x.week() as i64, x.weekday().to_monday_one_offset() as i64))
                });
                match g {
                    Ok((ymd, parts)) => {
                        if ymd != cal::civil_from_days(z) {
                            cx.violation("ISOWeekDate::date", case, || format!("{:?}", cal::civil_from_days(z)), || format!("{:?}", ymd));
                        }
                        if parts != (y, w, t) {
                            cx.violation("ISOWeekDate::getters", case, || format!("{:?}", (y, w, t)), || format!("{:?}", parts));
                        }
                    }
                    Err(p) => cx.violation(&format!("ISOWeekDate::date/panic@{}", p.loc()), case, || "no panic".into(), || p.what.clone()),
                }
            }
        }
        Err(p) => cx.violation(&format!("ISOWeekDate::new/panic@{}", p.loc()), case, || "Ok|Err".into(), || p.what.clone()),
    }
}

fn sweep_iso(cx: &mut Ctx) {
    let weeks: Vec<i64> = [-128, -1].into_iter().chain(0..=54).chain([127]).collect();
    for (i, y) in years().into_iter().enumerate() {
        if !cx.mine(i as u64) {
            continue;
        }
        for &w in &weeks {
            for t in 1..=7 {
                check_iso(cx, y, w, t);
            }
            if w == 53 || w == 52 || w == 1 {
                cx.nontrivial(hash64(format!("i{},{}", y, w).as_bytes()));
            }
        }
    }
}

fn check_nth_of_month(cx: &mut Ctx, y: i64, m: i64, d: i64, nth: i64, t: i64) {
    let case = || format!("nthm:{},{},{},{},{}", y, m, d, nth, t);
    let dim = cal::days_in_month(y, m);
    let first = cal::days_from_civil(y, m, 1);
    let exp: Option<(i64, i64, i64)> = if nth == 0 || nth.abs() > 5 {
        None
    } else if nth > 0 {
        let wd_first = cal::weekday_from_days(first);
        let day = 1 + (t - wd_first).rem_euclid(7) + (nth - 1) * 7;
        if day <= dim {
            Some((y, m, day))
        } else {
            None
        }
    } else {
        let last = first + dim - 1;
        let wd_last = cal::weekday_from_days(last);
        let day = dim - (wd_last - t).rem_euclid(7) - (-nth - 1) * 7;
        if day >= 1 {
            Some((y, m, day))
        } else {
            None
        }
    };
    let got = guard(|| Date::new(y as i16, m as i8, d as i8).unwrap().nth_weekday_of_month(nth as i8, wd(t)));
    cx.eval(1);
    match got {
        Ok(r) => {
            let g = r.as_ref().ok().map(|x| (x.year() as i64, x.month() as i64, x.day() as i64));
            if g != exp {
                cx.violation("Date::nth_weekday_of_month", case, || format!("{:?}", exp), || format!("{:?}", r));
            }
        }
        Err(p) => cx.violation(&format!("Date::nth_weekday_of_month/panic@{}", p.loc()), case, || format!("{:?}", exp), || p.what.clone()),
    }
    // static copy (only defined for nth in -5..=5 \ {0})
    if nth != 0 && nth.abs() <= 5 {
        let sg = guard(|| st::IDate { year: y as i16, month: m as i8, day: d as i8 }.nth_weekday_of_month(nth as i8, st::IWeekday::from_monday_one_offset(t as i8)));
        match sg {
            Ok(r) => {
                let g = r.ok().map(|x| (x.year as i64, x.month as i64, x.day as i64));
                if g != exp {
                    cx.violation("static:IDate::nth_weekday_of_month", case, || format!("{:?}", exp), || format!("{:?}", g));
                }
            }
            Err(p) => cx.violation(&format!("static:nth_weekday_of_month/panic@{}", p.loc()), case, || format!("{:?}", exp), || p.what.clone()),
        }
    }
}

fn sweep_nth_of_month(cx: &mut Ctx, r: &mut Rng) {
    let mut i = 0u64;
    for y in -9999..=9999i64 {
        for m in 1..=12i64 {
            i += 1;
            if !cx.mine(i) {
                continue;
            }
            let d = r.range(1, cal::days_in_month(y, m));
            for nth in -6..=6i64 {
                for t in 1..=7i64 {
                    check_nth_of_month(cx, y, m, d, nth, t);
                }
            }
            cx.nontrivial(hash64(format!("m{},{}", y, m).as_bytes()));
        }
    }
}

const SPAN_WEEKS: i64 = 1_043_497;

fn check_nth(cx: &mut Ctx, n: i64, nth: i64, t: i64) {
    let (y, m, d) = cal::civil_from_days(n);
    let case = || format!("nth:{},{},{},{},{}", y, m, d, nth, t);
    let cur = cal::weekday_from_days(n);
    let exp: Option<(i64, i64, i64)> = if nth == 0 || nth.abs() > SPAN_WEEKS {
        None
    } else {
        let z = if nth > 0 {
            let mut delta = (t - cur).rem_euclid(7);
            if delta == 0 {
                delta = 7;
            }
            n + delta + (nth - 1) * 7
        } else {
            let mut delta = (cur - t).rem_euclid(7);
            if delta == 0 {
                delta = 7;
            }
            n - delta - (-nth - 1) * 7
        };
        if (cal::MIN_DAY..=cal::MAX_DAY).contains(&z) {
            Some(cal::civil_from_days(z))
        } else {
            None
        }
    };
    let got = guard(|| Date::new(y as i16, m as i8, d as i8).unwrap().nth_weekday(nth as i32, wd(t)));
    cx.eval(1);
    match got {
        Ok(r) => {
            let g = r.as_ref().ok().map(|x| (x.year() as i64, x.month() as i64, x.day() as i64));
            if g != exp {
                cx.violation("Date::nth_weekday", case, || format!("{:?}", exp), || format!("{:?}", r));
            }
            if let Some(e) = exp {
                if nth.abs() > 1 {
                    cx.nontrivial(hash64(format!("w{:?},{}", e, nth).as_bytes()));
                }
            }
        }
        Err(p) => cx.violation(&format!("Date::nth_weekday/panic@{}", p.loc()), case, || format!("{:?}", exp), || p.what.clone()),
    }
}

fn random_nth(cx: &mut Ctx, r: &mut Rng) {
    let n = cx.budget(2_000_000, 40_000_000);
    for _ in 0..n {
        let day = r.biased(cal::MIN_DAY, cal::MAX_DAY);
        let nth = match r.below(8) {
            0 => r.biased_out(-SPAN_WEEKS, SPAN_WEEKS).clamp(i32::MIN as i64, i32::MAX as i64),
            1 => r.range(-10, 10),
            2 => {
                // aim at the range limits
                let room = if r.chance(1, 2) { (cal::MAX_DAY - day) / 7 } else { -((day - cal::MIN_DAY) / 7) };
                room + r.range(-2, 2)
            }
            3 => *r.pick(&[i32::MIN as i64, i32::MAX as i64, SPAN_WEEKS, -SPAN_WEEKS, SPAN_WEEKS + 1, -SPAN_WEEKS - 1]),
            _ => r.range(-SPAN_WEEKS, SPAN_WEEKS),
        };
        let t = r.range(1, 7);
        check_nth(cx, day, nth, t);
    }
}

pub fn run(cx: &mut Ctx) {
    if let Some(case) = cx.case.clone() {
        return replay(cx, &case);
    }
    if cx.shard == 0 {
        match cal::self_check() {
            Ok(n) => cx.count("model_selfcheck_days", n),
            Err(e) => cx.inconclusive(format!("calendar model self-check failed: {}", e)),
        }
    }
    let mut r = Rng::new(cx.shard_seed());
    sweep_dates(cx);
    if cx.opt("sparse").is_none() {
        sweep_ctor(cx);
        sweep_iso(cx);
        sweep_nth_of_month(cx, &mut r);
    }
    random_nth(cx, &mut r);
}

fn replay(cx: &mut Ctx, case: &str) {
    let (kind, rest) = case.split_once(':').unwrap_or(("", ""));
    let v: Vec<i64> = rest.split(',').filter_map(|x| x.parse().ok()).collect();
    match (kind, v.as_slice()) {
        ("date", &[y, m, d]) => {
            let n = cal::days_from_civil(y, m, d);
            let mk = |n: i64| {
                let (y, m, d) = cal::civil_from_days(n);
                Odo { y, m, d, n, wd: cal::weekday_from_days(n), doy: cal::day_of_year(y, m, d) }
            };
            let o = mk(n);
            let prev = if n > cal::MIN_DAY { Some(mk(n - 1)) } else { None };
            let next = if n < cal::MAX_DAY { Some(mk(n + 1)) } else { None };
            check_date(cx, &o, prev.as_ref(), next.as_ref(), Date::new(1970, 1, 1).unwrap(), &TimeZone::UTC);
        }
        ("new", &[y, m, d]) => {
            let exp = cal::valid(y, m, d);
            let got = guard(|| Date::new(y as i16, m as i8, d as i8));
            cx.eval(1);
            println!("Date::new({},{},{}) expected ok={} got {:?}", y, m, d, exp, got);
            if !matches!(&got, Ok(r) if r.is_ok() == exp) {
                cx.violation("Date::new/validity", || case.to_string(), || format!("ok={}", exp), || format!("{:?}", got));
            }
        }
        ("iso", &[y, w, t]) => check_iso(cx, y, w, t),
        ("nthm", &[y, m, d, nth, t]) => check_nth_of_month(cx, y, m, d, nth, t),
        ("nth", &[y, m, d, nth, t]) => check_nth(cx, cal::days_from_civil(y, m, d), nth, t),
        _ => cx.inconclusive(format!("unparseable case {}", case)),
    }
    println!("replay {}: evaluations={} violations={}", case, cx.evals, cx.viol_total);
}

//! C03 — offset, DST flag and abbreviation at an instant match the TZ data.

use crate::rep::{guard, Ctx};
use crate::rng::{hash64, hash_mix, Rng};
use crate::tzmon::{self, jiff_info, model_civil, ts_floor, Corrob};
use crate::zones::{self, ZoneCase};
use jiff::Zoned;

pub fn fmt_z(off: i32) -> String {
    let a = off.abs();
    let (h, m, s) = (a / 3600, a / 60 % 60, a % 60);
    let sign = if off < 0 { '-' } else { '+' };
    if s != 0 {
        format!("{}{:02}{:02}{:02}", sign, h, m, s)
    } else {
        format!("{}{:02}{:02}", sign, h, m)
    }
}

/// One probe. Returns true when the probe straddles a real change (for the
/// non-triviality count the caller handles it).
pub fn probe(cx: &mut Ctx, z: &ZoneCase, corroborated: bool, sec: i64, ns: u32, with_strftime: bool) {
    let Some(t) = ts_floor(sec, ns) else { return };
    let case = || format!("{}|{}|{}", z.id, sec, ns);
    let exp = z.model.info(sec);
    let (civ, off) = model_civil(&z.model, sec, ns);
    let fixed = z.src == "fixed";
    let r = guard(|| {
        let info = jiff_info(&z.tz, t);
        let o = z.tz.to_offset(t).seconds();
        let dt = z.tz.to_datetime(t);
        let zd = Zoned::new(t, z.tz.clone());
        let zo = zd.offset().seconds();
        let zdt = zd.datetime();
        let sf = if with_strftime { Some(zd.strftime("%Z|%z").to_string()) } else { None };
        (info, o, dt, zo, zdt, sf)
    });
    cx.eval(5);
    match r {
        Err(p) => cx.violation(&format!("lookup/panic@{}", p.loc()), case, || format!("{:?}", exp), || p.what.clone()),
        Ok((info, o, dt, zo, zdt, sf)) => {
            if !corroborated {
                cx.count("probes_without_verdict", 1);
                return;
            }
            let d10 = z.model.d10_window(sec);
            let src: &str = if d10 {
                cx.count("probes_in_D10_windows", 1);
                "posix-rule-in-adjacent-utc-year"
            } else {
                z.src
            };
            if info.utoff != exp.utoff {
                cx.violation(&format!("to_offset_info/offset[{}]", src), case, || format!("{:?}", exp), || format!("{:?}", info));
            } else if info.isdst != exp.isdst {
                cx.violation(&format!("to_offset_info/dst[{}]", src), case, || format!("{:?}", exp), || format!("{:?}", info));
            } else if !fixed && info.abbr != exp.abbr {
                cx.violation(&format!("to_offset_info/abbreviation[{}]", src), case, || format!("{:?}", exp), || format!("{:?}", info));
            }
            if o != exp.utoff {
                cx.violation(&format!("to_offset[{}]", src), case, || format!("{}", exp.utoff), || format!("{}", o));
            }
            if zo != exp.utoff {
                cx.violation(&format!("Zoned::offset[{}]", src), case, || format!("{}", exp.utoff), || format!("{}", zo));
            }
            let _ = off;
            if civ.in_range() {
                let e = tzmon::dt_of(civ);
                if Some(dt) != e {
                    cx.violation(&format!("to_datetime[{}]", src), case, || format!("{:?}", e), || format!("{:?}", dt));
                }
                if Some(zdt) != e {
                    cx.violation(&format!("Zoned::datetime[{}]", src), case, || format!("{:?}", e), || format!("{:?}", zdt));
                }
            }
            if let Some(sf) = sf {
                cx.eval(1);
                if !fixed {
                    // jiff's %Z upper-cases the abbreviation by design (the `#`
                    // flag swaps it to lower case), so compare case-insensitively
                    let e = format!("{}|{}", exp.abbr.to_ascii_uppercase(), fmt_z(exp.utoff));
                    if sf.to_ascii_uppercase() != e {
                        cx.violation(&format!("strftime(%Z|%z)[{}]", src), case, || e.clone(), || sf.clone());
                    }
                }
            }
        }
    }
}

pub fn check_zone(cx: &mut Ctx, z: &ZoneCase, c: &Corrob, years: &[i64], r: &mut Rng, n_random: usize) {
    cx.count("zdump_lines_compared_with_model", c.zd_lines);
    cx.count("zdump_transitions", c.zd_transitions);
    cx.count("zoneinfo_points_compared_with_model", c.py_points);
    if c.zd_ok {
        cx.count("zones_model_agrees_with_zdump", 1);
    }
    if c.py_ok {
        cx.count("zones_model_agrees_with_zoneinfo", 1);
    }
    if c.ok() {
        cx.count("zones_corroborated", 1);
    } else {
        cx.count("zones_uncorroborated", 1);
        cx.note(format!("model not corroborated for {}: {}", z.id, c.why()));
    }
    let probes = tzmon::probe_instants(&z.model, years, r, n_random);
    // non-trivial: straddled real changes
    let changes = z.model.changes(zones::TS_MIN, zones::TS_MAX, years);
    let zh = hash64(z.id.as_bytes());
    if c.ok() {
        for &t in &changes {
            cx.nontrivial(hash_mix(zh, t as u64));
        }
        cx.count("model_change_instants_probed", changes.len() as u64);
    }
    for (i, &(s, ns)) in probes.iter().enumerate() {
        probe(cx, z, c.ok(), s, ns, i % 16 == 0);
    }
    cx.count("probes", probes.len() as u64);
    if !changes.is_empty() {
        let t = changes[changes.len() / 2];
        cx.sample(|| format!("{} T={} before={:?} after={:?}", z.id, t, z.model.info(t - 1), z.model.info(t)));
    }
}

pub fn run(cx: &mut Ctx) {
    if let Some(case) = cx.case.clone() {
        return replay(cx, &case);
    }
    let mut r = Rng::new(cx.shard_seed());
    let years = zones::probe_years(&mut Rng::new(cx.seed), cx.thorough);
    let ids = zones::corpus_ids(&cx.work);
    let n_random = if cx.thorough { 2000 } else { 300 };
    let stride = cx.opt_u64("zone_stride", 1);
    let mut zs: Vec<ZoneCase> = Vec::new();
    for (i, id) in ids.iter().enumerate() {
        if !cx.mine(i as u64) || (i as u64 / cx.nshards) % stride != 0 {
            continue;
        }
        match zones::resolve(id, &cx.work) {
            Ok(z) => zs.push(z),
            Err(e) => {
                // files the model or jiff reject only reduce coverage here
                // (parser totality is C17, loader agreement is C18)
                cx.count("zones_unloadable", 1);
                cx.note(format!("skipped {}: {}", id, e));
            }
        }
    }
    cx.count("synthetic_zones", zs.iter().filter(|z| z.src.starts_with("synth")).count() as u64);
    // POSIX TZ strings
    let mut strings: Vec<String> = Vec::new();
    for (i, s) in zones::FIXED_POSIX.iter().enumerate() {
        if cx.mine(i as u64) {
            strings.push(s.to_string());
        }
    }
    let n = cx.budget(400, 6000);
    let mut pr = Rng::new(hash_mix(cx.shard_seed(), 77));
    for _ in 0..n {
        strings.push(zones::gen_posix(&mut pr));
    }
    for s in strings {
        match zones::from_posix(&s) {
            Ok(z) => {
                zs.push(z);
                cx.count("posix_strings", 1);
            }
            Err(e) => {
                cx.count("posix_strings_rejected", 1);
                cx.note(format!("posix string not usable: {}", e));
            }
        }
    }
    for (i, o) in [0i32, 1, -1, 59, -59, 3600, -3600, 19800, 93599, -93599, 12 * 3600 + 45 * 60].iter().enumerate() {
        if cx.mine(i as u64) {
            if let Ok(z) = zones::resolve(&format!("fixed:{}", o), &cx.work) {
                zs.push(z);
            }
        }
    }
    let cor = tzmon::corroborate_all(&zs, &cx.work, &years);
    for (z, c) in zs.iter().zip(cor.iter()) {
        let nr = if z.src == "posix" { 50 } else { n_random };
        check_zone(cx, z, c, &years, &mut r, nr);
        cx.count("zones", 1);
    }
}

fn replay(cx: &mut Ctx, case: &str) {
    let parts: Vec<&str> = case.rsplitn(3, '|').collect();
    if parts.len() != 3 {
        cx.inconclusive("bad case");
        return;
    }
    let (ns, sec, id) = (parts[0].parse::<u32>().unwrap_or(0), parts[1].parse::<i64>().unwrap_or(0), parts[2]);
    match zones::resolve(id, &cx.work) {
        Ok(z) => {
            let years: Vec<i64> = (1900..=2100).collect();
            let zs = vec![z];
            let c = tzmon::corroborate_all(&zs, &cx.work, &years);
            let z = &zs[0];
            println!("corroboration of the model: {:?}", c[0]);
            println!("model: {:?}", z.model.info(sec));
            if let Some(t) = ts_floor(sec, ns) {
                println!("jiff : {:?} at {}", guard(|| jiff_info(&z.tz, t)), t);
            }
            probe(cx, z, true, sec, ns, true);
        }
        Err(e) => cx.inconclusive(e),
    }
}

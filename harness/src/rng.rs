//! Seeded PRNG (xoshiro256**), no external crates.

#[derive(Clone)]
pub struct Rng {
    s: [u64; 4],
}

fn splitmix(x: &mut u64) -> u64 {
    *x = x.wrapping_add(0x9E3779B97F4A7C15);
    let mut z = *x;
    z = (z ^ (z >> 30)).wrapping_mul(0xBF58476D1CE4E5B9);
    z = (z ^ (z >> 27)).wrapping_mul(0x94D049BB133111EB);
    z ^ (z >> 31)
}

impl Rng {
    pub fn new(seed: u64) -> Rng {
        let mut x = seed ^ 0x6A09E667F3BCC909;
        let s = [splitmix(&mut x), splitmix(&mut x), splitmix(&mut x), splitmix(&mut x)];
        Rng { s }
    }
    /// Derive an independent stream.
    pub fn fork(&mut self, tag: u64) -> Rng {
        Rng::new(self.next() ^ tag.wrapping_mul(0x9E3779B97F4A7C15))
    }
    pub fn next(&mut self) -> u64 {
        let r = self.s[1].wrapping_mul(5).rotate_left(7).wrapping_mul(9);
        let t = self.s[1] << 17;
        self.s[2] ^= self.s[0];
        self.s[3] ^= self.s[1];
        self.s[1] ^= self.s[2];
        self.s[0] ^= self.s[3];
        self.s[2] ^= t;
        self.s[3] = self.s[3].rotate_left(45);
        r
    }
    /// uniform in [0, n)
    pub fn below(&mut self, n: u64) -> u64 {
        if n == 0 {
            return 0;
        }
        // multiply-shift; bias negligible for our purposes
        ((self.next() as u128 * n as u128) >> 64) as u64
    }
    /// uniform in [lo, hi] inclusive
    pub fn range(&mut self, lo: i64, hi: i64) -> i64 {
        debug_assert!(lo <= hi);
        let span = (hi as i128 - lo as i128 + 1) as u128;
        let r = ((self.next() as u128) << 64 | self.next() as u128) % span;
        (lo as i128 + r as i128) as i64
    }
    pub fn range128(&mut self, lo: i128, hi: i128) -> i128 {
        let span = (hi - lo + 1) as u128;
        let r = ((self.next() as u128) << 64 | self.next() as u128) % span;
        lo + r as i128
    }
    pub fn chance(&mut self, num: u64, den: u64) -> bool {
        self.below(den) < num
    }
    pub fn pick<'a, T>(&mut self, xs: &'a [T]) -> &'a T {
        &xs[self.below(xs.len() as u64) as usize]
    }
    pub fn f64(&mut self) -> f64 {
        (self.next() >> 11) as f64 / (1u64 << 53) as f64
    }
    /// A value biased to the limits of [lo, hi] and to zero.
    pub fn biased(&mut self, lo: i64, hi: i64) -> i64 {
        let v = match self.below(16) {
            0 => lo,
            1 => hi,
            2 => lo.saturating_add(1),
            3 => hi.saturating_sub(1),
            4 => 0,
            5 => 1,
            6 => -1,
            7 => lo.saturating_add(self.below(100) as i64),
            8 => hi.saturating_sub(self.below(100) as i64),
            9 => self.range(-100, 100),
            10 => self.range(-100_000, 100_000),
            _ => self.range(lo, hi),
        };
        v.clamp(lo, hi)
    }
    /// Like `biased` but may step just outside the limits (for error paths).
    pub fn biased_out(&mut self, lo: i64, hi: i64) -> i64 {
        match self.below(24) {
            0 => lo.saturating_sub(1),
            1 => hi.saturating_add(1),
            2 => i64::MIN,
            3 => i64::MAX,
            4 => lo.saturating_sub(self.below(1000) as i64),
            5 => hi.saturating_add(self.below(1000) as i64),
            _ => self.biased(lo, hi),
        }
    }
    pub fn shuffle<T>(&mut self, xs: &mut [T]) {
        for i in (1..xs.len()).rev() {
            let j = self.below(i as u64 + 1) as usize;
            xs.swap(i, j);
        }
    }
}

pub fn hash64(bytes: &[u8]) -> u64 {
    // FNV-1a then a splitmix finaliser
    let mut h: u64 = 0xcbf29ce484222325;
    for &b in bytes {
        h ^= b as u64;
        h = h.wrapping_mul(0x100000001b3);
    }
    let mut x = h;
    splitmix(&mut x)
}

pub fn hash_mix(a: u64, b: u64) -> u64 {
    let mut x = a ^ b.rotate_left(32).wrapping_mul(0x9E3779B97F4A7C15);
    splitmix(&mut x)
}

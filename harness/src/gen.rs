//! Limit-biased generators for civil values, spans and durations.

use crate::arith::{MSpan, DAY, HOUR, LIMITS, MONTH, WEEK, YEAR};
use crate::cal::{self, Civ, NS_DAY};
use crate::rng::Rng;

pub const SD_MAX_NS: i128 = i64::MAX as i128 * 1_000_000_000 + 999_999_999;
pub const SD_MIN_NS: i128 = i64::MIN as i128 * 1_000_000_000 - 999_999_999;

/// A civil day number biased to limits, month ends, leap days, year 0.
pub fn gen_day(r: &mut Rng) -> i64 {
    match r.below(12) {
        0 => cal::MIN_DAY + r.below(400) as i64,
        1 => cal::MAX_DAY - r.below(400) as i64,
        2 => cal::MIN_DAY,
        3 => cal::MAX_DAY,
        4 => {
            // a month end
            let y = r.range(-9999, 9999);
            let m = r.range(1, 12);
            cal::days_from_civil(y, m, cal::days_in_month(y, m)) - r.below(4) as i64
        }
        5 => {
            // around Feb 28/29
            let y = r.range(-9999, 9999);
            cal::days_from_civil(y, 3, 1) - r.below(3) as i64
        }
        6 => cal::days_from_civil(r.range(-2, 2), r.range(1, 12), r.range(1, 28)),
        7 => r.range(-800, 800),
        _ => r.range(cal::MIN_DAY, cal::MAX_DAY),
    }
    .clamp(cal::MIN_DAY, cal::MAX_DAY)
}

/// nanosecond of day, biased to the ends, midnight, noon, whole seconds
pub fn gen_nod(r: &mut Rng) -> i64 {
    let max = NS_DAY as i64 - 1;
    match r.below(10) {
        0 => 0,
        1 => max,
        2 => 1,
        3 => max - 1,
        4 => r.range(0, 86399) * 1_000_000_000,
        5 => r.range(0, 86399) * 1_000_000_000 + 999_999_999,
        6 => r.range(0, 23) * 3_600_000_000_000,
        7 => 12 * 3_600_000_000_000 + r.range(-5, 5),
        _ => r.range(0, max),
    }
    .clamp(0, max)
}

pub fn gen_civ(r: &mut Rng) -> Civ {
    Civ { day: gen_day(r), nod: gen_nod(r) }
}

/// One unit value: limit-biased, optionally stepping outside.
pub fn gen_unit_value(r: &mut Rng, unit: usize, allow_out: bool) -> i64 {
    let lim = LIMITS[unit];
    let v = match r.below(12) {
        0 => lim,
        1 => lim - 1,
        2 => 1,
        3 => r.range(1, 100),
        4 => r.range(1, 100_000).min(lim),
        5 if allow_out => lim.saturating_add(1),
        6 if allow_out => lim.saturating_add(r.below(1000) as i64),
        7 => lim / 2 + r.range(-3, 3),
        8 => {
            // something that matters for this unit relative to the civil range
            match unit {
                YEAR => r.range(1, 19_998),
                MONTH => r.range(1, 239_976),
                WEEK => r.range(1, 1_043_497),
                DAY => r.range(1, 7_304_484),
                HOUR => r.range(1, 175_307_616),
                _ => r.range(1, lim),
            }
        }
        _ => {
            // log-uniform magnitude
            let bits = r.below(63) + 1;
            ((r.next() >> (64 - bits)) as i64).clamp(1, lim)
        }
    };
    v.max(1)
}

/// A span as a unit vector with 1..=4 non-zero units of one sign.
pub fn gen_span(r: &mut Rng, units: &[usize], allow_out: bool) -> MSpan {
    let mut s = MSpan::zero();
    if r.chance(1, 40) {
        return s;
    }
    let n = 1 + r.below(4) as usize;
    let sign = if r.chance(1, 2) { 1 } else { -1 };
    for _ in 0..n {
        let u = *r.pick(units);
        s.u[u] = sign * gen_unit_value(r, u, allow_out);
    }
    // i64::MIN is never a legal nanosecond count
    s
}

pub const ALL_UNITS: [usize; 10] = [0, 1, 2, 3, 4, 5, 6, 7, 8, 9];
pub const TIME_UNITS: [usize; 6] = [0, 1, 2, 3, 4, 5];

/// A signed duration as total nanoseconds (|secs| fits i64).
pub fn gen_sdur_ns(r: &mut Rng) -> i128 {
    match r.below(14) {
        0 => SD_MAX_NS,
        1 => SD_MIN_NS,
        2 => SD_MAX_NS - r.below(3_000_000_000) as i128,
        3 => SD_MIN_NS + r.below(3_000_000_000) as i128,
        4 => 0,
        5 => r.range(-3_000_000_000, 3_000_000_000) as i128,
        6 => r.range(-2, 2) as i128 * NS_DAY + r.range(-2, 2) as i128,
        7 => r.range(-7_304_500, 7_304_500) as i128 * NS_DAY + r.range(-1_000_000_000, 1_000_000_000) as i128,
        8 => (r.range(-631_107_417_700, 631_107_417_700) as i128) * 1_000_000_000 + r.range(-999_999_999, 999_999_999) as i128,
        9 => r.range(i64::MIN + 1, i64::MAX) as i128,
        _ => {
            let bits = r.below(95) + 1;
            let mag = ((r.next() as u128) << 64 | r.next() as u128) >> (128 - bits);
            let v = (mag as i128).min(SD_MAX_NS);
            if r.chance(1, 2) {
                v
            } else {
                -v
            }
        }
    }
}

pub fn sdur_of_ns(ns: i128) -> jiff::SignedDuration {
    jiff::SignedDuration::new((ns / 1_000_000_000) as i64, (ns % 1_000_000_000) as i32)
}

pub fn udur_of_ns(ns: u128) -> std::time::Duration {
    std::time::Duration::new((ns / 1_000_000_000) as u64, (ns % 1_000_000_000) as u32)
}

pub fn date_of_day(day: i64) -> jiff::civil::Date {
    let (y, m, d) = cal::civil_from_days(day);
    jiff::civil::Date::new(y as i16, m as i8, d as i8).expect("valid date")
}

/// Day number of a jiff date. An *invalid* date (e.g. Feb 29 of a common
/// year, which a defective jiff could hand out) maps to a sentinel so that it
/// can never compare equal to a model value.
pub fn day_of_date(d: jiff::civil::Date) -> i64 {
    let (y, m, dd) = (d.year() as i64, d.month() as i64, d.day() as i64);
    if !cal::valid(y, m, dd) {
        return i64::MIN / 4 + y * 512 + m * 32 + dd;
    }
    cal::days_from_civil(y, m, dd)
}

pub fn time_of_nod(nod: i64) -> jiff::civil::Time {
    let s = nod / 1_000_000_000;
    jiff::civil::Time::new((s / 3600) as i8, (s / 60 % 60) as i8, (s % 60) as i8, (nod % 1_000_000_000) as i32).expect("valid time")
}

pub fn nod_of_time(t: jiff::civil::Time) -> i64 {
    let ok = (0..24).contains(&t.hour()) && (0..60).contains(&t.minute()) && (0..60).contains(&t.second()) && (0..1_000_000_000).contains(&t.subsec_nanosecond());
    if !ok {
        return i64::MIN / 4;
    }
    ((t.hour() as i64 * 60 + t.minute() as i64) * 60 + t.second() as i64) * 1_000_000_000 + t.subsec_nanosecond() as i64
}

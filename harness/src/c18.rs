//! C18 — all ways of loading a time zone give the same zone. For the same
//! TZif bytes, handles obtained through every loader are driven with the same
//! probes and their answers compared element by element (in process), or as
//! hashed behaviour traces (across build flavours: tz-fat on/off).

use crate::cal::Civ;
use crate::rep::{guard, Ctx};
use crate::rng::{hash64, hash_mix, Rng};
use crate::tzmon::{dt_of, probe_instants, ts_floor};
use crate::tzref::{self, Zone};
use crate::zones::{self, TS_MAX, TS_MIN};
use jiff::civil::DateTime;
use jiff::fmt::temporal::DateTimePrinter;
use jiff::tz::{AmbiguousOffset, TimeZone, TimeZoneDatabase};
use jiff::{Timestamp, Zoned};
use std::io::Write;
use std::path::PathBuf;

pub struct Probes {
    pub instants: Vec<Timestamp>,
    pub civils: Vec<DateTime>,
    pub starts: Vec<Timestamp>,
}

/// Probes derived from the reference model only (so that every process and
/// build flavour uses the same ones for the same zone).
pub fn probes_for(model: &Zone, seed: u64, thorough: bool) -> Probes {
    let mut r = Rng::new(seed);
    let years: Vec<i64> = vec![-9999, -1, 0, 1, 1883, 1900, 1916, 1942, 1970, 1987, 2007, 2024, 2037, 2038, 2039, 2100, 2400, 9998, 9999];
    let raw = probe_instants(model, &years, &mut r, if thorough { 200 } else { 40 });
    let mut instants = Vec::new();
    let mut civils = Vec::new();
    for (i, &(s, ns)) in raw.iter().enumerate() {
        let Some(t) = ts_floor(s, ns) else { continue };
        instants.push(t);
        if ns == 0 || i % 7 == 0 {
            // the wall clock readings on both sides of a candidate change
            for d in [-1i64, 0] {
                let off = model.info((s + d).clamp(TS_MIN, TS_MAX)).utoff as i64;
                let c = Civ::from_ns((s + off) as i128 * 1_000_000_000 + ns as i128);
                if c.in_range() {
                    if let Some(dt) = dt_of(c) {
                        civils.push(dt);
                    }
                }
            }
        }
    }
    civils.push(DateTime::MIN);
    civils.push(DateTime::MAX);
    let mut starts = vec![Timestamp::MIN, Timestamp::MAX, Timestamp::UNIX_EPOCH];
    for y in [1900i64, 1987, 2037, 2500] {
        if let Ok(t) = Timestamp::new(crate::cal::days_from_civil(y, 7, 1) * 86400, 500_000_000) {
            starts.push(t);
        }
    }
    // iterator starts with a fractional second right around candidate changes (T-0.5s, T+1ns, T+0.999999999s):
    // the boundary of "strictly before/after" for explicit and for rule-generated transitions alike
    let frac: Vec<Timestamp> = raw.iter().filter(|(_, ns)| *ns != 0).filter_map(|&(s, ns)| ts_floor(s, ns)).collect();
    let step = (frac.len() / 9).max(1);
    for t in frac.iter().step_by(step).take(9) {
        starts.push(*t);
    }
    Probes { instants, civils, starts }
}

fn amb_string(a: AmbiguousOffset) -> String {
    match a {
        AmbiguousOffset::Unambiguous { offset } => format!("U{}", offset.seconds()),
        AmbiguousOffset::Gap { before, after } => format!("G{}>{}", before.seconds(), after.seconds()),
        AmbiguousOffset::Fold { before, after } => format!("F{}>{}", before.seconds(), after.seconds()),
    }
}

const ITER_STEPS: usize = 60;

/// One element of the behaviour trace: (section, index, answer).
fn answers(tz: &TimeZone, p: &Probes, changes_only: bool) -> Vec<(&'static str, usize, String)> {
    let mut out = Vec::with_capacity(p.instants.len() + p.civils.len() + 64);
    for (i, t) in p.instants.iter().enumerate() {
        let info = tz.to_offset_info(*t);
        out.push(("offset-info", i, format!("{} {:?} {}", info.offset().seconds(), info.dst().is_dst(), info.abbreviation())));
    }
    for (i, d) in p.civils.iter().enumerate() {
        out.push(("civil", i, amb_string(tz.to_ambiguous_zoned(*d).offset())));
    }
    for (i, s) in p.starts.iter().enumerate() {
        for fwd in [true, false] {
            let mut seq = String::new();
            let mut last: Option<(i32, bool, String)> = if changes_only {
                let info = tz.to_offset_info(*s);
                Some((info.offset().seconds(), info.dst().is_dst(), info.abbreviation().to_string()))
            } else {
                None
            };
            let mut n = 0;
            let mut push = |tr: jiff::tz::TimeZoneTransition<'_>| {
                let cur = (tr.offset().seconds(), tr.dst().is_dst(), tr.abbreviation().to_string());
                if changes_only && fwd {
                    if last.as_ref() == Some(&cur) {
                        return true;
                    }
                    last = Some(cur.clone());
                }
                seq.push_str(&format!("{}:{}:{}:{};", tr.timestamp().as_second(), cur.0, cur.1, cur.2));
                n += 1;
                n < ITER_STEPS
            };
            if fwd {
                for tr in tz.following(*s).take(4000) {
                    if !push(tr) {
                        break;
                    }
                }
            } else if !changes_only {
                for tr in tz.preceding(*s).take(4000) {
                    if !push(tr) {
                        break;
                    }
                }
            }
            out.push((if fwd { "following" } else { "preceding" }, i, seq));
        }
    }
    for (i, t) in p.instants.iter().take(3).chain(p.starts.iter().take(3)).enumerate() {
        let z = Zoned::new(*t, tz.clone());
        out.push(("print", i, format!("{} {}", z, jiff::fmt::strtime::format("%Z %z", &z).unwrap_or_default())));
    }
    out
}

/// Compare two handles element by element.
pub fn cmp_handles(cx: &mut Ctx, label: &str, zid: &str, a: &TimeZone, b: &TimeZone, p: &Probes, changes_only: bool, eq_expected: bool) {
    let res = guard(|| (answers(a, p, changes_only), answers(b, p, changes_only)));
    let case = || format!("cmp|{}|{}", label, zid);
    match res {
        Err(pn) => cx.violation(&format!("{}/panic@{}", label, pn.loc()), case, || "no panic".into(), || pn.what.clone()),
        Ok((x, y)) => {
            cx.eval(x.len() as u64);
            for (ea, eb) in x.iter().zip(y.iter()) {
                if ea != eb {
                    let what = match ea.0 {
                        "offset-info" => format!("at {}", p.instants[ea.1]),
                        "civil" => format!("at {}", p.civils[ea.1]),
                        "following" | "preceding" => format!("from {}", p.starts[ea.1]),
                        _ => String::new(),
                    };
                    cx.violation(&format!("{}/differs[{}]", label, ea.0), case, || format!("{} {}", ea.2.chars().take(300).collect::<String>(), what), || eb.2.chars().take(300).collect::<String>());
                    break;
                }
            }
            if eq_expected && a != b {
                cx.violation(&format!("{}/handles-compare-unequal", label), case, || "a == b".into(), || format!("{:?} != {:?}", a.iana_name(), b.iana_name()));
            }
        }
    }
}

fn trace_hashes(tz: &TimeZone, p: &Probes) -> [u64; 5] {
    let mut h = [0u64; 5];
    for (sec, i, ans) in answers(tz, p, false) {
        let k = match sec {
            "offset-info" => 0,
            "civil" => 1,
            "following" => 2,
            "preceding" => 3,
            _ => 4,
        };
        h[k] = hash_mix(h[k], hash_mix(i as u64, hash64(ans.as_bytes())));
    }
    h
}

fn case_variants(name: &str, r: &mut Rng) -> Vec<String> {
    let mut v = vec![name.to_ascii_uppercase(), name.to_ascii_lowercase()];
    for _ in 0..4 {
        v.push(name.chars().map(|c| if r.chance(1, 2) { c.to_ascii_uppercase() } else { c.to_ascii_lowercase() }).collect());
    }
    v
}

fn check_names(cx: &mut Ctx, label: &str, db: &TimeZoneDatabase, name: &str, canonical: &TimeZone, p: &Probes, r: &mut Rng) {
    for var in case_variants(name, r) {
        cx.eval(1);
        let case = || format!("name|{}|{}", label, var);
        match guard(|| db.get(&var)) {
            Err(pn) => cx.violation(&format!("{}/name-lookup-panic@{}", label, pn.loc()), case, || "Ok".into(), || pn.what.clone()),
            Ok(Err(e)) => cx.violation(&format!("{}/case-variant-not-found", label), case, || format!("the zone {}", name), || e.to_string()),
            Ok(Ok(tz)) => {
                if tz.iana_name() != Some(name) {
                    cx.violation(&format!("{}/case-variant-not-canonical-name", label), case, || name.to_string(), || format!("{:?}", tz.iana_name()));
                }
                // same behaviour on a few probes
                for t in p.instants.iter().step_by(17).take(12) {
                    if tz.to_offset(*t) != canonical.to_offset(*t) {
                        cx.violation(&format!("{}/case-variant-differs", label), case, || format!("{:?} at {}", canonical.to_offset(*t), t), || format!("{:?}", tz.to_offset(*t)));
                        break;
                    }
                }
            }
        }
    }
}

/// The jiff-static copy of the shared TZif parser, compiled into the harness:
/// its tables must describe the behaviour of the handle built by jiff proper.
fn check_copy_tables(cx: &mut Ctx, zid: &str, name: &str, bytes: &[u8], a: &TimeZone, d10: bool) {
    let case = || format!("copy|{}", zid);
    // lookups at or after the last transition go through the footer rule: known finding D10 applies to such zones
    let tag = if d10 { " [posix-rule-in-adjacent-utc-year]" } else { "" };
    let parsed = guard(|| crate::shared::TzifOwned::parse(Some(name.to_string()), bytes));
    let t = match parsed {
        Err(pn) => return cx.violation(&format!("jiff-static-copy/panic@{}", pn.loc()), case, || "Ok".into(), || pn.what.clone()),
        Ok(Err(e)) => return cx.violation("jiff-static-copy/rejects-what-jiff-accepts", case, || "Ok".into(), || format!("{:?}", e)),
        Ok(Ok(t)) => t,
    };
    let tr = &t.transitions;
    let n = tr.timestamps.len();
    if tr.civil_starts.len() != n || tr.civil_ends.len() != n || tr.infos.len() != n {
        return cx.violation("jiff-static-copy/column-lengths", case, || format!("{}", n), || format!("{} {} {}", tr.civil_starts.len(), tr.civil_ends.len(), tr.infos.len()));
    }
    for i in 1..n {
        let ts = tr.timestamps[i];
        if i + 1 < n && tr.timestamps[i + 1] == ts {
            continue;
        }
        if ts <= TS_MIN || ts > TS_MAX {
            continue;
        }
        cx.eval(1);
        let Some(typ) = t.types.get(tr.infos[i].type_index as usize) else {
            cx.violation("jiff-static-copy/type-index", case, || "in range".into(), || format!("{}", tr.infos[i].type_index));
            continue;
        };
        let abbr = t.fixed.designations.get(typ.designation.0 as usize..typ.designation.1 as usize).unwrap_or("?");
        let info = a.to_offset_info(Timestamp::new(ts, 0).unwrap());
        if info.offset().seconds() != typ.offset || info.dst().is_dst() != typ.is_dst || info.abbreviation() != abbr {
            cx.violation(&format!("jiff-static-copy/transition-table-vs-jiff{}", tag), case, || format!("{} {} {} at {}", info.offset().seconds(), info.dst().is_dst(), info.abbreviation(), ts), || format!("{} {} {}", typ.offset, typ.is_dst, abbr));
            break;
        }
        // the wall clock boundaries of the transition: [start, end) is the gap or the fold
        let prev_off = t.types.get(tr.infos[i - 1].type_index as usize).map(|x| x.offset).unwrap_or(0);
        let far = (i < 2 || ts - tr.timestamps[i - 1] > 2 * 86400) && (i + 1 >= n || tr.timestamps[i + 1] - ts > 2 * 86400);
        if !far {
            continue;
        }
        let civ = |d: &crate::shared::TzifDateTime| jiff::civil::DateTime::new(d.year(), d.month(), d.day(), d.hour(), d.minute(), d.second(), 0).ok();
        let (Some(cs), Some(ce)) = (civ(&tr.civil_starts[i]), civ(&tr.civil_ends[i])) else { continue };
        let kind = format!("{:?}", tr.infos[i].kind);
        let at_start = amb_string(a.to_ambiguous_zoned(cs).offset());
        let expect = match kind.as_str() {
            "Gap" => format!("G{}>{}", prev_off, typ.offset),
            "Fold" => format!("F{}>{}", prev_off, typ.offset),
            _ => format!("U{}", typ.offset),
        };
        if at_start != expect {
            cx.violation(&format!("jiff-static-copy/civil-start-vs-jiff{}", tag), case, || format!("{} at {} ({})", at_start, cs, kind), || expect.clone());
            break;
        }
        if kind != "Unambiguous" {
            let at_end = amb_string(a.to_ambiguous_zoned(ce).offset());
            if at_end != format!("U{}", typ.offset) {
                cx.violation(&format!("jiff-static-copy/civil-end-vs-jiff{}", tag), case, || format!("{} at {}", at_end, ce), || format!("U{}", typ.offset));
                break;
            }
        }
    }
    // the footer rule of the copy, evaluated by the copy's own POSIX code, against the handle
    if let Some(px) = &t.fixed.posix_tz {
        let last = tr.timestamps.last().copied().unwrap_or(0).max(0);
        for k in 0..40i64 {
            let s = last + 86_400 + k * 9_999_991;
            if s >= TS_MAX {
                break;
            }
            cx.eval(1);
            let io = px.to_offset(crate::shared::util::itime::ITimestamp { second: s, nanosecond: 0 });
            let main = a.to_offset(Timestamp::new(s, 0).unwrap()).seconds();
            if io.second != main {
                cx.violation(&format!("jiff-static-copy/footer-rule-vs-jiff{}", tag), case, || format!("{} at {}", main, s), || format!("{}", io.second));
                break;
            }
        }
    }
}

fn write_tree(dir: &str, files: &[(String, Vec<u8>)]) -> std::io::Result<()> {
    for (name, bytes) in files {
        let p = PathBuf::from(format!("{}/{}", dir, name));
        if let Some(parent) = p.parent() {
            std::fs::create_dir_all(parent)?;
        }
        std::fs::write(&p, bytes)?;
    }
    Ok(())
}

pub fn run(cx: &mut Ctx) {
    if let Some(case) = cx.case.clone() {
        println!("replay of {} = re-run of its zone through every loader", case);
    }
    let only = cx.case.clone().and_then(|c| c.rsplit('|').next().map(|s| s.to_string()));
    let mut r = Rng::new(cx.shard_seed());
    let stride = cx.opt_u64("zone_stride", 1);
    let trace_only = cx.opt("trace_only").is_some();

    // ---- the zone files of this shard
    let mut files: Vec<(String, String, Vec<u8>)> = Vec::new(); // (zone id, name, bytes)
    for (i, (name, p)) in zones::system().into_iter().enumerate() {
        if (i as u64 / 16) % stride != 0 && !matches!(name.as_str(), "America/New_York" | "Europe/Dublin" | "Australia/Lord_Howe" | "Africa/Casablanca" | "America/Sao_Paulo" | "Asia/Gaza" | "Pacific/Apia" | "Antarctica/Troll") {
            continue;
        }
        if let Ok(b) = std::fs::read(&p) {
            files.push((format!("sys:{}", name), name, b));
        }
    }
    for (src, name, p) in zones::synthetic(&cx.work) {
        if let Ok(b) = std::fs::read(&p) {
            files.push((format!("{}:{}", src, name), name, b));
        }
    }
    files.retain(|(id, _, _)| only.as_ref().map_or(true, |o| id == o || o.ends_with(id.as_str())));
    let mine: Vec<(String, String, Vec<u8>)> = files.into_iter().enumerate().filter(|(i, _)| cx.mine(*i as u64) || only.is_some()).map(|(_, f)| f).collect();

    // reference handles + probes
    struct Z {
        id: String,
        name: String,
        bytes: Vec<u8>,
        a: TimeZone,
        model: Zone,
        p: Probes,
    }
    let mut zs: Vec<Z> = Vec::new();
    for (id, name, bytes) in mine {
        let Ok(model) = tzref::parse_tzif(&bytes) else {
            cx.count("model_rejects", 1);
            continue;
        };
        let a = match guard(|| TimeZone::tzif(&name, &bytes)) {
            Ok(Ok(a)) => a,
            Ok(Err(_)) => {
                cx.count("jiff_rejects", 1);
                continue;
            }
            Err(pn) => {
                cx.violation(&format!("TimeZone::tzif/panic@{}", pn.loc()), || format!("cmp|tzif|{}", id), || "Ok or Err".into(), || pn.what.clone());
                continue;
            }
        };
        let model = Zone::Tzif(model);
        let p = probes_for(&model, hash64(id.as_bytes()) ^ cx.seed, cx.thorough);
        zs.push(Z { id, name, bytes, a, model, p });
    }
    cx.count("zones", zs.len() as u64);

    // ---- behaviour traces for the cross-flavour diff (tz-fat on / off)
    if let Some(out) = cx.out.clone() {
        let path = format!("{}.c18", out);
        if let Ok(mut f) = std::fs::File::create(&path) {
            for z in &zs {
                match guard(|| trace_hashes(&z.a, &z.p)) {
                    Ok(h) => {
                        let _ = writeln!(f, "{}\t{:016x}\t{:016x}\t{:016x}\t{:016x}\t{:016x}\t{}", z.id, h[0], h[1], h[2], h[3], h[4], if z.model.d10_zone() { "d10" } else { "-" });
                        cx.eval(1);
                    }
                    Err(pn) => cx.violation(&format!("trace/panic@{}", pn.loc()), || format!("cmp|trace|{}", z.id), || "no panic".into(), || pn.what.clone()),
                }
            }
        }
    }
    if cx.opt("dump_answers").is_some() {
        for z in &zs {
            for (sec, i, ans) in answers(&z.a, &z.p, false) {
                let at = match sec {
                    "offset-info" => z.p.instants[i].to_string(),
                    "civil" => z.p.civils[i].to_string(),
                    "following" | "preceding" => z.p.starts[i].to_string(),
                    _ => String::new(),
                };
                println!("ANS {} {} {} {} {}", z.id, sec, i, at, ans);
            }
        }
        return;
    }
    // bundled (slim) zones join the cross-flavour trace: in-memory fattening acts on them
    if let Some(out) = cx.out.clone() {
        if let Ok(mut f) = std::fs::OpenOptions::new().append(true).open(format!("{}.c18", out)) {
            for (i, name) in zones::bundled_names().iter().enumerate() {
                if !cx.mine(i as u64) {
                    continue;
                }
                let Some((n, bytes)) = jiff_tzdb::get(name) else { continue };
                let Ok(model) = tzref::parse_tzif(bytes) else { continue };
                let Ok(a) = TimeZone::tzif(n, bytes) else { continue };
                let id = format!("bundled:{}", n);
                let model = Zone::Tzif(model);
                let p = probes_for(&model, hash64(id.as_bytes()) ^ cx.seed, cx.thorough);
                if let Ok(h) = guard(|| trace_hashes(&a, &p)) {
                    let _ = writeln!(f, "{}\t{:016x}\t{:016x}\t{:016x}\t{:016x}\t{:016x}\t{}", id, h[0], h[1], h[2], h[3], h[4], if model.d10_zone() { "d10" } else { "-" });
                    cx.eval(1);
                }
            }
        }
    }
    if trace_only {
        for z in &zs {
            cx.nontrivial(hash64(z.id.as_bytes()));
        }
        cx.nontrivial(1);
        cx.nontrivial(2);
        return;
    }

    // ---- the same bytes through a zoneinfo directory and a concatenated container (slim/sys and fat kept apart: same names)
    for group in ["main", "fat"] {
        let sel: Vec<&Z> = zs.iter().filter(|z| (group == "fat") == z.id.starts_with("synth-fat:")).collect();
        if sel.is_empty() {
            continue;
        }
        let dir = format!("{}/c18-{}-{}", cx.work, group, cx.shard);
        let _ = std::fs::remove_dir_all(&dir);
        let flist: Vec<(String, Vec<u8>)> = sel.iter().map(|z| (z.name.clone(), z.bytes.clone())).collect();
        if write_tree(&format!("{}/zoneinfo", dir), &flist).is_err() || std::fs::write(format!("{}/tzdata", dir), crate::concat::pack("2025b", &flist)).is_err() {
            cx.inconclusive("cannot write the scratch zoneinfo tree");
            return;
        }
        let dbs = [("from_dir", guard(|| TimeZoneDatabase::from_dir(format!("{}/zoneinfo", dir)))), ("from_concatenated_path", guard(|| TimeZoneDatabase::from_concatenated_path(format!("{}/tzdata", dir))))];
        for (label, db) in dbs {
            let db = match db {
                Ok(Ok(db)) => db,
                Ok(Err(e)) => {
                    cx.violation(&format!("{}/cannot-open", label), || format!("cmp|{}|{}", label, group), || "Ok".into(), || e.to_string());
                    continue;
                }
                Err(pn) => {
                    cx.violation(&format!("{}/panic@{}", label, pn.loc()), || format!("cmp|{}|{}", label, group), || "Ok".into(), || pn.what.clone());
                    continue;
                }
            };
            let avail: std::collections::BTreeSet<String> = db.available().map(|n| n.as_str().to_string()).collect();
            for z in &sel {
                if label == "from_concatenated_path" && z.name.len() > 40 {
                    continue;
                }
                cx.eval(1);
                if !avail.contains(&z.name) {
                    cx.violation(&format!("{}/available-misses-zone", label), || format!("cmp|{}|{}", label, z.id), || z.name.clone(), || format!("{} names", avail.len()));
                }
                match guard(|| db.get(&z.name)) {
                    Ok(Ok(b)) => {
                        if b.iana_name() != Some(z.name.as_str()) {
                            cx.violation(&format!("{}/name", label), || format!("cmp|{}|{}", label, z.id), || z.name.clone(), || format!("{:?}", b.iana_name()));
                        }
                        // "UTC" resolves to the special TimeZone::UTC value by design, not to the file
                        cmp_handles(cx, label, &z.id, &z.a, &b, &z.p, false, z.name != "UTC");
                        check_names(cx, label, &db, &z.name, &b, &z.p, &mut r);
                    }
                    Ok(Err(e)) => cx.violation(&format!("{}/zone-not-found", label), || format!("cmp|{}|{}", label, z.id), || "the zone".into(), || e.to_string()),
                    Err(pn) => cx.violation(&format!("{}/panic@{}", label, pn.loc()), || format!("cmp|{}|{}", label, z.id), || "Ok".into(), || pn.what.clone()),
                }
            }
        }
        let _ = std::fs::remove_dir_all(&dir);
    }

    // ---- databases holding *all* system zones at once (the name index sees every neighbour): the global handle,
    // a fresh from_dir handle on the system directory, and one container with every system zone
    let sys_all = zones::system();
    let all_files: Vec<(String, Vec<u8>)> = sys_all.iter().filter(|(n, _)| n.len() <= 40).filter_map(|(n, p)| std::fs::read(p).ok().map(|b| (n.clone(), b))).collect();
    let full_dir = format!("{}/c18-full-{}", cx.work, cx.shard);
    let _ = std::fs::create_dir_all(&full_dir);
    let full_container = format!("{}/tzdata", full_dir);
    let mut full_dbs: Vec<(&str, TimeZoneDatabase)> = vec![("tz::db()", jiff::tz::db().clone())];
    match guard(|| TimeZoneDatabase::from_dir("/usr/share/zoneinfo")) {
        Ok(Ok(db)) => full_dbs.push(("from_dir(system)", db)),
        Ok(Err(e)) => cx.violation("from_dir(system)/cannot-open", || "cmp|from_dir(system)|all".into(), || "Ok".into(), || e.to_string()),
        Err(pn) => cx.violation(&format!("from_dir(system)/panic@{}", pn.loc()), || "cmp|from_dir(system)|all".into(), || "Ok".into(), || pn.what.clone()),
    }
    if std::fs::write(&full_container, crate::concat::pack("2025b", &all_files)).is_ok() {
        match guard(|| TimeZoneDatabase::from_concatenated_path(&full_container)) {
            Ok(Ok(db)) => full_dbs.push(("from_concatenated_path(all)", db)),
            Ok(Err(e)) => cx.violation("from_concatenated_path(all)/cannot-open", || "cmp|from_concatenated_path(all)|all".into(), || "Ok".into(), || e.to_string()),
            Err(pn) => cx.violation(&format!("from_concatenated_path(all)/panic@{}", pn.loc()), || "cmp|from_concatenated_path(all)|all".into(), || "Ok".into(), || pn.what.clone()),
        }
    }
    for (label, db) in &full_dbs {
        let avail: std::collections::BTreeSet<String> = match guard(|| db.available().map(|n| n.as_str().to_string()).collect()) {
            Ok(a) => a,
            Err(pn) => {
                cx.violation(&format!("{}/available-panic@{}", label, pn.loc()), || format!("cmp|{}|all", label), || "Ok".into(), || pn.what.clone());
                continue;
            }
        };
        for z in zs.iter().filter(|z| z.id.starts_with("sys:")) {
            if label.starts_with("from_concatenated") && z.name.len() > 40 {
                continue;
            }
            cx.eval(1);
            if !avail.contains(&z.name) {
                cx.violation(&format!("{}/available-misses-zone", label), || format!("cmp|{}|{}", label, z.id), || z.name.clone(), || format!("{} names", avail.len()));
            }
            match guard(|| db.get(&z.name)) {
                Ok(Ok(b)) => {
                    if z.name != "UTC" {
                        cmp_handles(cx, label, &z.id, &z.a, &b, &z.p, false, true);
                    }
                    check_names(cx, label, db, &z.name, &b, &z.p, &mut r);
                }
                Ok(Err(e)) => cx.violation(&format!("{}/zone-not-found", label), || format!("cmp|{}|{}", label, z.id), || format!("the zone {} (its file is accepted by TimeZone::tzif)", z.name), || e.to_string()),
                Err(pn) => cx.violation(&format!("{}/panic@{}", label, pn.loc()), || format!("cmp|{}|{}", label, z.id), || "Ok".into(), || pn.what.clone()),
            }
        }
    }
    // every name of the system tree through *one* handle of each whole-database loader, in a seeded order: a lookup
    // must not depend on which names were looked up before (names that are prefixes of other names, neighbours in the
    // sorted cache ...). Judged on the canonical name and on the offsets at three instants of the zone's own file.
    {
        let mut order: Vec<usize> = (0..sys_all.len()).collect();
        r.shuffle(&mut order);
        let probes = [Timestamp::UNIX_EPOCH, Timestamp::new(1_720_000_000, 0).unwrap(), Timestamp::new(-1_500_000_000, 0).unwrap()];
        for (label, db) in &full_dbs {
            if *label == "tz::db()" {
                continue; // shared with everything else in this process; the fresh handles below are the clean experiment
            }
            let fresh = match *label {
                "from_dir(system)" => TimeZoneDatabase::from_dir("/usr/share/zoneinfo").ok(),
                _ => Some(db.clone()),
            };
            let Some(db) = fresh else { continue };
            db.reset();
            let mut wrong = 0;
            for &i in &order {
                let (name, path) = &sys_all[i];
                if name == "UTC" || (label.starts_with("from_concatenated") && name.len() > 40) {
                    continue;
                }
                let Ok(bytes) = std::fs::read(path) else { continue };
                let Ok(a) = TimeZone::tzif(name, &bytes) else { continue };
                cx.eval(1);
                match guard(|| db.get(name)) {
                    Ok(Ok(b)) => {
                        let same = b.iana_name() == Some(name.as_str()) && probes.iter().all(|t| a.to_offset_info(*t).offset() == b.to_offset_info(*t).offset() && a.to_offset_info(*t).abbreviation() == b.to_offset_info(*t).abbreviation());
                        if !same {
                            wrong += 1;
                            if wrong <= 3 {
                                cx.violation(&format!("{}/lookup-depends-on-earlier-lookups", label), || format!("cmp|{}|sys:{}", label, name), || format!("{} as in its file", name), || format!("{:?} with offset {:?} at the epoch (file: {:?})", b.iana_name(), b.to_offset(probes[0]), a.to_offset(probes[0])));
                            }
                        }
                    }
                    Ok(Err(e)) => cx.violation(&format!("{}/zone-not-found", label), || format!("cmp|{}|sys:{}", label, name), || format!("the zone {}", name), || e.to_string()),
                    Err(pn) => cx.violation(&format!("{}/panic@{}", label, pn.loc()), || format!("cmp|{}|sys:{}", label, name), || "Ok".into(), || pn.what.clone()),
                }
            }
            cx.count("whole_database_ordered_sweeps", 1);
        }
    }
    let _ = std::fs::remove_dir_all(&full_dir);
    for z in zs.iter().filter(|z| z.id.starts_with("sys:")) {
        cx.nontrivial(hash64(z.id.as_bytes()));
    }

    // ---- the jiff-static copy of the shared parser
    for z in &zs {
        check_copy_tables(cx, &z.id, &z.name, &z.bytes, &z.a, z.model.d10_zone());
    }

    // ---- bundled database
    let bundled = TimeZoneDatabase::bundled();
    let names = zones::bundled_names();
    for (i, name) in names.iter().enumerate() {
        if !cx.mine(i as u64) || (i as u64 / 16) % stride != 0 {
            continue;
        }
        if only.as_ref().map_or(false, |o| !o.ends_with(name)) {
            continue;
        }
        let Some((n, bytes)) = jiff_tzdb::get(name) else { continue };
        let Ok(model) = tzref::parse_tzif(bytes) else { continue };
        let Ok(a) = TimeZone::tzif(n, bytes) else { continue };
        let id = format!("bundled:{}", n);
        let p = probes_for(&Zone::Tzif(model), hash64(id.as_bytes()) ^ cx.seed, cx.thorough);
        cx.eval(1);
        match guard(|| bundled.get(name)) {
            Ok(Ok(b)) => {
                if *name != "UTC" {
                    cmp_handles(cx, "bundled", &id, &a, &b, &p, false, true);
                }
                check_names(cx, "bundled", &bundled, name, &b, &p, &mut r);
            }
            Ok(Err(e)) => cx.violation("bundled/zone-not-found", || format!("cmp|bundled|{}", id), || "the zone".into(), || e.to_string()),
            Err(pn) => cx.violation(&format!("bundled/panic@{}", pn.loc()), || format!("cmp|bundled|{}", id), || "Ok".into(), || pn.what.clone()),
        }
        cx.nontrivial(hash64(id.as_bytes()));
        #[cfg(feature = "statictz")]
        {
            if let Some(s) = crate::gen_static::get(name) {
                cmp_handles(cx, "static get!", &id, &a, &s, &p, false, false);
                cx.count("static_get_zones", 1);
            }
        }
    }

    // ---- static include!: the synthetic zones compiled into the binary
    #[cfg(feature = "statictz")]
    {
        for (k, (path, tz)) in crate::gen_static::included().into_iter().enumerate() {
            if !cx.mine(k as u64) {
                continue;
            }
            let Ok(bytes) = std::fs::read(path) else {
                cx.inconclusive(format!("included file {} is gone", path));
                continue;
            };
            let Ok(model) = tzref::parse_tzif(&bytes) else { continue };
            let name = tz.iana_name().unwrap_or("Included/Zone").to_string();
            let Ok(a) = TimeZone::tzif(&name, &bytes) else {
                cx.violation("static include!/accepts-what-TimeZone::tzif-rejects", || format!("cmp|include|{}", path), || "Err".into(), || "compiled".into());
                continue;
            };
            let id = format!("include:{}", path);
            let p = probes_for(&Zone::Tzif(model), hash64(id.as_bytes()) ^ cx.seed, cx.thorough);
            cmp_handles(cx, "static include!", &id, &a, &tz, &p, false, false);
            cx.count("static_include_zones", 1);
            cx.nontrivial(hash64(id.as_bytes()));
        }
    }

    // ---- slim and fat compilations of the same rules: the same function of the instant, the same info changes
    let slim: Vec<&Z> = zs.iter().filter(|z| z.id.starts_with("synth-slim:")).collect();
    for s in slim {
        let fat_id = format!("synth-fat:{}", s.name);
        let (fat_tz, fat_model): (TimeZone, Zone) = match zones::resolve(&fat_id, &cx.work) {
            Ok(zc) => (zc.tz, zc.model),
            Err(_) => continue,
        };
        let tag = if s.model.d10_zone() || fat_model.d10_zone() { " [posix-rule-in-adjacent-utc-year]" } else { "" };
        // probes of both compilations
        let pf = probes_for(&fat_model, hash64(fat_id.as_bytes()) ^ cx.seed, cx.thorough);
        let mut p = Probes { instants: s.p.instants.clone(), civils: s.p.civils.clone(), starts: s.p.starts.clone() };
        p.instants.extend(pf.instants.iter().copied());
        p.civils.extend(pf.civils.iter().copied());
        cmp_handles(cx, &format!("slim-vs-fat{}", tag), &s.id, &s.a, &fat_tz, &p, true, false);
        cx.count("slim_fat_pairs", 1);
    }

    // ---- POSIX: print -> parse gives a zone with identical behaviour
    let mut pstrings: Vec<String> = zones::FIXED_POSIX.iter().map(|s| s.to_string()).collect();
    for _ in 0..cx.budget(400, 20000) {
        pstrings.push(zones::gen_posix(&mut r));
    }
    for z in &zs {
        // the footer of every file
        if let Some(pos) = z.bytes[..z.bytes.len().saturating_sub(1)].iter().rposition(|&b| b == b'\n') {
            if let Ok(f) = std::str::from_utf8(&z.bytes[pos + 1..z.bytes.len() - 1]) {
                if !f.is_empty() {
                    pstrings.push(f.to_string());
                }
            }
        }
    }
    for (k, ps) in pstrings.iter().enumerate() {
        if only.is_some() && only.as_deref() != Some(ps.as_str()) {
            continue;
        }
        let Ok(model) = tzref::parse_posix(ps) else { continue };
        let Ok(a) = TimeZone::posix(ps) else { continue };
        cx.eval(1);
        let case = || format!("cmp|posix|{}", ps);
        let printed = match guard(|| DateTimePrinter::new().time_zone_to_string(&a)) {
            Ok(Ok(s)) => s,
            Ok(Err(e)) => {
                cx.violation("posix/cannot-print", case, || "Ok".into(), || e.to_string());
                continue;
            }
            Err(pn) => {
                cx.violation(&format!("posix/print-panic@{}", pn.loc()), case, || "Ok".into(), || pn.what.clone());
                continue;
            }
        };
        // the documented inverse of time_zone_to_string is DateTimeParser::parse_time_zone (its own entry into the POSIX parser)
        match guard(|| jiff::fmt::temporal::DateTimeParser::new().parse_time_zone(&printed)) {
            Ok(Ok(b)) => {
                let p = probes_for(&Zone::Posix(model.clone()), hash64(ps.as_bytes()) ^ cx.seed, false);
                cmp_handles(cx, "posix print->parse_time_zone", &format!("posix:{}", ps), &a, &b, &p, false, true);
            }
            Ok(Err(e)) => cx.violation("posix/printed-form-rejected-by-parse_time_zone", case, || format!("{:?} parses", printed), || e.to_string()),
            Err(pn) => cx.violation(&format!("posix/parse_time_zone-panic@{}", pn.loc()), case, || "Ok".into(), || pn.what.clone()),
        }
        match guard(|| TimeZone::posix(&printed)) {
            Ok(Ok(b)) => {
                let p = probes_for(&Zone::Posix(model), hash64(ps.as_bytes()) ^ cx.seed, false);
                cmp_handles(cx, "posix print->parse", &format!("posix:{}", ps), &a, &b, &p, false, true);
            }
            Ok(Err(e)) => cx.violation("posix/printed-form-rejected", case, || format!("{:?} parses", printed), || e.to_string()),
            Err(pn) => cx.violation(&format!("posix/parse-panic@{}", pn.loc()), case, || "Ok".into(), || pn.what.clone()),
        }
        if k % 4 == 0 {
            cx.nontrivial(hash64(ps.as_bytes()));
        }
    }
    cx.count("posix_strings", pstrings.len() as u64);
    let ex = zs.first().map(|z| format!("{}: {} instants, {} civil probes, {} iterator starts", z.id, z.p.instants.len(), z.p.civils.len(), z.p.starts.len()));
    cx.sample(|| ex.unwrap_or_default());
}

//! C11 — Span rounding, balancing, totals and comparison conserve the
//! denoted duration (end-point conservation relative to a reference).

use crate::arith::{self, unit_of, MSpan, Mode, LIMITS, MODES, UNIT_NAMES, UNIT_NS};
use crate::c02::{ts_from_ns, MAX_NS, MIN_NS};
use crate::cal::{self, Civ, NS_DAY};
use crate::gen;
use crate::rep::{guard, Ctx};
use crate::rng::{hash64, Rng};
use crate::tzmon::{self, civ_of, dt_of};
use crate::zones::{self, ZoneCase};
use jiff::{Span, SpanArithmetic, SpanCompare, SpanRelativeTo, SpanRound, SpanTotal, Zoned};

const NS: i128 = 1_000_000_000;

/// The reference datetime.
pub enum Rel<'a> {
    /// civil datetime (key = civil ns); `as_date` passes a `Date` to jiff
    Civil { c: Civ, as_date: bool },
    Zoned { z: &'a ZoneCase, t: i128 },
    /// no reference, days are 24 hours (key = ns)
    Marker,
    /// no reference at all (only uniform units allowed)
    None,
}

impl<'a> Rel<'a> {
    pub fn describe(&self) -> String {
        match self {
            Rel::Civil { c, as_date } => format!("civil:{}:{}:{}", c.day, c.nod, *as_date as u8),
            Rel::Zoned { z, t } => format!("zoned:{}:{}", z.id, t),
            Rel::Marker => "marker".into(),
            Rel::None => "none".into(),
        }
    }
    /// r + span, through jiff's own (separately monitored) addition
    pub fn add(&self, s: &MSpan) -> Option<i128> {
        match self {
            Rel::Civil { c, .. } => {
                let sp = s.to_jiff().ok()?;
                dt_of(*c)?.checked_add(sp).ok().map(|d| civ_of(d).to_ns())
            }
            Rel::Zoned { z, t } => {
                let sp = s.to_jiff().ok()?;
                Zoned::new(ts_from_ns(*t)?, z.tz.clone()).checked_add(sp).ok().map(|x| x.timestamp().as_nanosecond())
            }
            Rel::Marker => {
                if s.u[arith::MONTH] != 0 || s.u[arith::YEAR] != 0 {
                    return None;
                }
                Some(s.time_ns() + s.u[arith::DAY] as i128 * NS_DAY + s.u[arith::WEEK] as i128 * 7 * NS_DAY)
            }
            Rel::None => {
                if s.has_calendar() {
                    return None;
                }
                Some(s.time_ns())
            }
        }
    }
    fn day_of_month(&self) -> i64 {
        match self {
            Rel::Civil { c, .. } => c.ymd().2,
            Rel::Zoned { z, t } => crate::c06::model_civil(z, *t).ymd().2,
            _ => 1,
        }
    }
    fn max_unit(&self) -> usize {
        match self {
            Rel::Civil { .. } | Rel::Zoned { .. } => arith::YEAR,
            Rel::Marker => arith::WEEK,
            Rel::None => arith::HOUR,
        }
    }
}

fn relto<'a>(rel: &Rel, zoned: &'a Option<Zoned>) -> Option<SpanRelativeTo<'a>> {
    match rel {
        Rel::Civil { c, as_date } => Some(if *as_date { SpanRelativeTo::from(dt_of(*c).unwrap().date()) } else { SpanRelativeTo::from(dt_of(*c).unwrap()) }),
        Rel::Zoned { .. } => zoned.as_ref().map(SpanRelativeTo::from),
        Rel::Marker => Some(SpanRelativeTo::days_are_24_hours()),
        Rel::None => None,
    }
}

fn apply_rel<'a>(o: SpanRound<'a>, rel: &Rel, zoned: &'a Option<Zoned>) -> SpanRound<'a> {
    match relto(rel, zoned) {
        Some(rt) => o.relative(rt),
        None => o,
    }
}

/// Units that may appear in a result with the given largest unit.
fn out_units(largest: usize, smallest: usize) -> Vec<usize> {
    (smallest..=largest).rev().filter(|&u| u != arith::WEEK || largest == arith::WEEK || smallest == arith::WEEK).collect()
}

/// Greedy balanced truncation: the largest span (unit by unit from `largest`
/// down to `smallest`, the smallest unit in multiples of `inc`) whose end
/// point does not pass x. Independent of jiff's rounding code; uses only
/// `rel.add`.
fn greedy(rel: &Rel, x: i128, sign: i64, largest: usize, smallest: usize, inc: i64) -> Option<MSpan> {
    let mut acc = MSpan::zero();
    let origin = rel.add(&acc)?;
    let _ = origin;
    for u in out_units(largest, smallest) {
        let step = if u == smallest { inc.max(1) } else { 1 };
        let fits = |k: i64| -> bool {
            let mut s = acc;
            s.u[u] = sign * k;
            match rel.add(&s) {
                Some(p) => {
                    if sign > 0 {
                        p <= x
                    } else {
                        p >= x
                    }
                }
                None => false,
            }
        };
        // exponential then binary search on the multiple count m (k = m*step)
        let max_m = LIMITS[u] / step;
        if fits(max_m * step) {
            // the unit limit, not the end point, would stop the search: no usable truncation
            return None;
        }
        // exponential then binary search; !fits(max_m) bounds both loops
        let mut lo = 0i64;
        let mut hi = 1i64.min(max_m);
        while hi < max_m && fits(hi * step) {
            lo = hi;
            hi = hi.saturating_mul(2).min(max_m);
        }
        // invariant: fits(lo*step) and !fits(hi*step)
        while hi - lo > 1 {
            let mid = lo + (hi - lo) / 2;
            if fits(mid * step) {
                lo = mid;
            } else {
                hi = mid;
            }
        }
        if lo >= max_m {
            // the unit limit, not the end point, stopped the search: no usable truncation
            return None;
        }
        acc.u[u] = sign * lo * step;
    }
    Some(acc)
}

fn pick_endpoint(mode: Mode, sign: i64, progress: i128, total: i128, quotient_even: bool) -> bool {
    // returns true when the far end (hi) is chosen
    if progress == 0 {
        return false;
    }
    let twice = progress * 2;
    match mode {
        Mode::Trunc => false,
        Mode::Expand => true,
        Mode::Ceil => sign > 0,
        Mode::Floor => sign < 0,
        _ => {
            if twice > total {
                true
            } else if twice < total {
                false
            } else {
                match mode {
                    Mode::HalfExpand => true,
                    Mode::HalfTrunc => false,
                    Mode::HalfCeil => sign > 0,
                    Mode::HalfFloor => sign < 0,
                    Mode::HalfEven => !quotient_even,
                    _ => false,
                }
            }
        }
    }
}

pub struct RoundCase {
    pub span: MSpan,
    pub smallest: usize,
    pub largest: Option<usize>,
    pub inc: i64,
    pub mode: Mode,
}

impl RoundCase {
    fn encode(&self) -> String {
        format!("{}|{}|{}|{}|{}", self.span.encode(), self.smallest, self.largest.map(|l| l as i64).unwrap_or(-1), self.inc, self.mode.idx())
    }
}

/// Metamorphic relation that needs no model of the (intricate) calendar semantics: in a zone without transitions
/// civil arithmetic and zoned arithmetic coincide, so rounding / totalling relative to a civil datetime must give
/// what the same call gives relative to that datetime as a Zoned in UTC. The two run through different code paths
/// (`relative_calendar`/`clamp_relative_span` have civil and zoned branches). Covers the day-clamping cases
/// (reference on day 29-31) that the end-point oracle leaves without verdict.
fn check_civil_vs_utc(cx: &mut Ctx, rel: &Rel, span: &MSpan, rc: Option<&RoundCase>, unit: usize) {
    let Rel::Civil { c, as_date } = rel else { return };
    if *as_date && c.nod != 0 {
        return;
    }
    let Some(dt) = dt_of(*c) else { return };
    let Ok(sp) = span.to_jiff() else { return };
    let Ok(z) = dt.to_zoned(jiff::tz::TimeZone::UTC) else { return };
    let case = || match rc {
        Some(rc) => format!("round|{}|{}", rel.describe(), rc.encode()),
        None => format!("total|{}|{}|{}", rel.describe(), span.encode(), unit),
    };
    cx.eval(1);
    match rc {
        Some(rc) => {
            // (day increments > 1 in a result that also carries weeks: which grid the days are on is not defined the
            // same way in the two branches - the same no-verdict rule as in the end-point oracle)
            let eff_largest = rc.largest.unwrap_or(rc.span.largest().unwrap_or(0).max(rc.smallest));
            if rc.smallest == arith::DAY && rc.inc > 1 && eff_largest >= arith::WEEK {
                cx.count("civil_vs_utc_skipped_week_day_grid", 1);
                return;
            }
            // (calendar units are rounded through an f64 progress fraction: remainders of nanoseconds against days or
            // months are below its resolution and the two branches may lose them differently - same no-verdict rule as
            // in the end-point oracle)
            if rc.smallest >= arith::DAY && (rc.span.u[0] != 0 || rc.span.u[1] != 0 || c.nod % 1_000_000 != 0) {
                cx.count("civil_vs_utc_skipped_below_f64_resolution", 1);
                return;
            }
            // (half-even ties: a civil reference rounds the whole duration in days or smaller units, a zoned one the
            // time of day within the last day / the days within the last week, so "even" refers to different quotients
            // - by specification)
            if rc.mode.idx() == 8 {
                cx.count("civil_vs_utc_skipped_half_even_time", 1);
                return;
            }
            let mk = || {
                let mut o = SpanRound::new().smallest(unit_of(rc.smallest)).increment(rc.inc).mode(rc.mode.to_jiff());
                if let Some(l) = rc.largest {
                    o = o.largest(unit_of(l));
                }
                o
            };
            let r = guard(|| (sp.round(mk().relative(dt)).ok().map(|s| MSpan::from_jiff(&s)), sp.round(mk().relative(&z)).ok().map(|s| MSpan::from_jiff(&s))));
            if let Ok((a, b)) = r {
                // (a zoned reference has hours as its largest non-calendar unit and treats days as calendar days: same thing in UTC)
                if a.is_some() && b.is_some() && a != b {
                    cx.violation("Span::round/civil-reference-differs-from-the-same-reference-in-UTC", case, || format!("{:?}", b.map(|m| m.show())), || format!("{:?}", a.map(|m| m.show())));
                }
            }
        }
        None => {
            let r = guard(|| (sp.total((unit_of(unit), dt)).ok(), sp.total((unit_of(unit), &z)).ok()));
            if let Ok((Some(a), Some(b))) = r {
                if (a - b).abs() > b.abs() * 1e-13 + 1e-12 {
                    cx.violation("Span::total/civil-reference-differs-from-the-same-reference-in-UTC", case, || format!("{}", b), || format!("{}", a));
                }
            }
        }
    }
}

pub fn check_round(cx: &mut Ctx, rel: &Rel, rc: &RoundCase) {
    check_civil_vs_utc(cx, rel, &rc.span, Some(rc), 0);
    let case = || format!("round|{}|{}", rel.describe(), rc.encode());
    let Ok(span) = rc.span.to_jiff() else { return };
    let zoned = match rel {
        Rel::Zoned { z, t } => ts_from_ns(*t).map(|ts| Zoned::new(ts, z.tz.clone())),
        _ => None,
    };
    let mut o = SpanRound::new().smallest(unit_of(rc.smallest)).increment(rc.inc).mode(rc.mode.to_jiff());
    if let Some(l) = rc.largest {
        o = o.largest(unit_of(l));
    }
    let o = apply_rel(o, rel, &zoned);
    cx.eval(1);
    let got = guard(|| span.round(o).ok().map(|s| MSpan::from_jiff(&s)));
    let got = match got {
        Err(p) => {
            cx.violation(&format!("Span::round/panic@{}", p.loc()), case, || "Ok|Err".into(), || p.what.clone());
            return;
        }
        Ok(g) => g,
    };
    // configuration legality
    let span_largest = rc.span.largest().unwrap_or(0);
    let eff_largest = rc.largest.unwrap_or(span_largest.max(rc.smallest));
    let legal_inc = if rc.smallest <= arith::HOUR { rc.inc > 0 && rc.inc < [1000, 1000, 1000, 60, 60, 24][rc.smallest] && [1000, 1000, 1000, 60, 60, 24][rc.smallest] % rc.inc == 0 } else { rc.inc > 0 };
    let needs_rel = span_largest.max(eff_largest).max(rc.smallest) > rel.max_unit();
    if !legal_inc || eff_largest < rc.smallest || needs_rel {
        if got.is_some() && (needs_rel || eff_largest < rc.smallest || rc.inc <= 0) {
            let why = if needs_rel { "calendar-units-without-reference-accepted" } else if rc.inc <= 0 { "non-positive-increment-accepted" } else { "largest-below-smallest-accepted" };
            cx.violation(&format!("Span::round/{}", why), case, || "Err".into(), || format!("{:?}", got.map(|m| m.show())));
        }
        return;
    }
    let Some(x) = rel.add(&rc.span) else {
        // r + span is not representable: an error is expected (no verdict on Ok)
        cx.count("round_reference_plus_span_out_of_range", 1);
        return;
    };
    let Some(origin) = rel.add(&MSpan::zero()) else { return };
    let sign = (x - origin).signum() as i64;
    let Some(g) = got else {
        // overflow of unit limits / range is a documented error; only flag when everything is small
        let small = rc.span.u.iter().zip(LIMITS.iter()).all(|(v, l)| (v.abs() as i128) < (*l as i128) / 4);
        let far = (x - origin).abs();
        let fits_units = (far / UNIT_NS[rc.smallest.min(7)].max(1)) < LIMITS[rc.smallest] as i128 / 2 || rc.smallest > eff_largest;
        if small && fits_units && (far / UNIT_NS[eff_largest.min(7)]) < LIMITS[eff_largest] as i128 / 2 {
            // the result could still exceed the datetime range when rounding up at the very edge
            let hi_probe = {
                let mut m = MSpan::zero();
                m.u[rc.smallest] = sign.max(1) * rc.inc;
                rel.add(&rc.span).and_then(|_| rel.add(&m))
            };
            if hi_probe.is_some() && !matches!(rel, Rel::None | Rel::Marker) || matches!(rel, Rel::None | Rel::Marker) {
                cx.count("round_err_unexplained", 1);
                // kept as an observation: errors are permitted for overflow and the exact
                // overflow conditions are not part of the statement
            }
        }
        return;
    };
    cx.count("rounds_ok", 1);
    // structural properties
    for i in (eff_largest + 1)..10 {
        if g.u[i] != 0 {
            cx.violation("Span::round/unit-above-largest", case, || format!("zero {}", UNIT_NAMES[i]), || g.show());
            return;
        }
    }
    for i in 0..rc.smallest {
        if g.u[i] != 0 {
            cx.violation("Span::round/unit-below-smallest", case, || format!("zero {}", UNIT_NAMES[i]), || g.show());
            return;
        }
    }
    // with weeks in the result and days as the smallest unit the increment applies to
    // the total number of days (weeks are only a re-balancing of them)
    // (for a zoned reference days are not uniform and the day field itself is rounded)
    let week_day_mix = rc.smallest == arith::DAY && eff_largest == arith::WEEK && !matches!(rel, Rel::Zoned { .. });
    let smallest_value = if week_day_mix { g.u[arith::WEEK] * 7 + g.u[arith::DAY] } else { g.u[rc.smallest] };
    if smallest_value % rc.inc != 0 {
        cx.violation("Span::round/smallest-not-multiple-of-increment", case, || format!("multiple of {}", rc.inc), || g.show());
        return;
    }
    let gs = g.sign();
    if gs != 0 && sign != 0 && gs != sign {
        cx.violation("Span::round/sign-flipped", case, || format!("sign {}", sign), || g.show());
        return;
    }
    // end point
    let clamp_risk = rel.day_of_month() >= 29 && (eff_largest >= arith::MONTH || rc.span.u[arith::MONTH] != 0 || rc.span.u[arith::YEAR] != 0);
    if clamp_risk {
        cx.count("round_endpoint_skipped_day_clamping", 1);
        return;
    }
    let Some(end) = rel.add(&g) else {
        cx.violation("Span::round/result-not-addable-to-reference", case, || "r + rounded representable".into(), || g.show());
        return;
    };
    if sign == 0 {
        if end != origin {
            cx.violation("Span::round/zero-duration-changed", case, || "r".into(), || g.show());
        }
        return;
    }
    // Rounding a *calendar* smallest unit in increments > 1 while larger units are present
    // is outside Temporal's domain (it rejects it); jiff accepts it and re-balances ("bubbles")
    // the rounded field into the larger unit, so that the result is on no single grid.
    // The statement's "reachable multiples" are not well defined there: no verdict.
    let calendar_smallest = match rel {
        Rel::Zoned { .. } => rc.smallest >= arith::DAY,
        Rel::Civil { .. } => rc.smallest > arith::DAY,
        _ => false,
    };
    let day_into_months = matches!(rel, Rel::Civil { .. }) && rc.smallest == arith::DAY && eff_largest >= arith::MONTH;
    if (calendar_smallest || day_into_months) && rc.inc > 1 && eff_largest > rc.smallest {
        cx.count("round_endpoint_skipped_calendar_increment_with_larger_units", 1);
        return;
    }
    let grid_largest = if week_day_mix { arith::DAY } else { eff_largest };
    let Some(t) = greedy(rel, x, sign, grid_largest, rc.smallest, rc.inc) else { return };
    let Some(lo) = rel.add(&t) else { return };
    let mut up = t;
    up.u[rc.smallest] += sign * rc.inc;
    let hi = rel.add(&up);
    if let Rel::Zoned { .. } = rel {
        if rc.smallest <= arith::HOUR && eff_largest >= arith::DAY {
            // when the time part of the upper neighbour reaches the real length of that
            // day it is carried into the day count (and re-rounded) as Temporal prescribes;
            // "1d 24h" and "2d" are different instants on a DST day: no verdict
            let mut days_only = up;
            for i in 0..=arith::HOUR {
                days_only.u[i] = 0;
            }
            let mut next_day = days_only;
            next_day.u[arith::DAY] += sign;
            if let (Some(d0), Some(d1)) = (rel.add(&days_only), rel.add(&next_day)) {
                if up.time_ns().abs() >= (d1 - d0).abs() {
                    cx.count("round_endpoint_skipped_time_reaches_day_length", 1);
                    return;
                }
            }
        }
    }
    let progress = (x - lo).abs();
    cx.eval(1);
    let expected_end = match hi {
        Some(hi) => {
            let total = (hi - lo).abs();
            if total == 0 {
                cx.count("round_degenerate_window", 1);
                return;
            }
            // calendar units are nudged with f64 arithmetic inside jiff (its own FIXME);
            // positions that an f64 cannot tell from a window end or from the exact middle
            // give no verdict
            if calendar_smallest {
                let p = progress as f64 / total as f64;
                if (p > 0.0 && p < 1e-9) || (p < 1.0 && p > 1.0 - 1e-9) || ((p - 0.5).abs() < 1e-9 && progress * 2 != total) {
                    cx.count("round_endpoint_skipped_below_f64_resolution", 1);
                    return;
                }
            }
            // half-even looks at the parity of the multiple count on the grid that is
            // rounded: the total for uniform units, the time-of-day remainder for a zoned
            // reference with whole days above it, the field itself for calendar units
            let step_ns = rc.inc as i128 * UNIT_NS[rc.smallest.min(7)];
            let uniform = match rel {
                Rel::Zoned { .. } => rc.smallest <= arith::HOUR,
                _ => rc.smallest <= arith::DAY || (rc.smallest == arith::WEEK && matches!(rel, Rel::Marker)),
            };
            let even = if !uniform {
                (t.u[rc.smallest] / rc.inc) % 2 == 0
            } else if matches!(rel, Rel::Zoned { .. }) && eff_largest >= arith::DAY {
                (t.time_ns().abs() / step_ns) % 2 == 0
            } else {
                // the invariant part of the truncation (days, weeks and time; years and
                // months are balanced away before the uniform part is rounded)
                let inv = t.time_ns() + t.u[arith::DAY] as i128 * NS_DAY + t.u[arith::WEEK] as i128 * 7 * NS_DAY;
                (inv.abs() / step_ns) % 2 == 0
            };
            if pick_endpoint(rc.mode, sign, progress, total, even) {
                hi
            } else {
                lo
            }
        }
        None => {
            // the upper neighbour is not representable: only lo (or an error) is possible
            lo
        }
    };
    if let Rel::Zoned { z, .. } = rel {
        // whole days are counted on the wall clock: if a neighbour's landing time is
        // inside a gap or fold the window ends are not ordered the way instants are
        let amb = |m: &MSpan| {
            let c = crate::c06::model_civil(z, origin);
            let mut cp = *m;
            for i in 0..=arith::HOUR {
                cp.u[i] = 0;
            }
            match arith::add_datetime(c, &cp) {
                Some(c2) => !matches!(crate::c04::model_classify(&z.model, c2), crate::c04::Class::Unambiguous(_)),
                None => true,
            }
        };
        if amb(&t) || amb(&up) || amb(&g) {
            cx.count("round_endpoint_skipped_ambiguous_landing", 1);
            return;
        }
    }
    if end != expected_end {
        cx.violation(&format!("Span::round/wrong-neighbour[{}]", match rel { Rel::Civil { .. } => "civil", Rel::Zoned { .. } => "zoned", Rel::Marker => "24h-days", Rel::None => "no-reference" }), case,
            || format!("r + rounded = {} (window lo {} hi {:?}, r + span = {}, truncated {})", expected_end, lo, hi, x, t.show()),
            || format!("{} via {}", end, g.show()));
    }
    if progress != 0 {
        cx.nontrivial(hash64(case().as_bytes()));
    }
}

/// total(unit): whole units by greedy counting + the exact fraction of the next one.
pub fn check_total(cx: &mut Ctx, rel: &Rel, span: &MSpan, unit: usize) {
    check_civil_vs_utc(cx, rel, span, None, unit);
    let case = || format!("total|{}|{}|{}", rel.describe(), span.encode(), unit);
    let Ok(sp) = span.to_jiff() else { return };
    let zoned = match rel {
        Rel::Zoned { z, t } => ts_from_ns(*t).map(|ts| Zoned::new(ts, z.tz.clone())),
        _ => None,
    };
    cx.eval(1);
    let got = guard(|| {
        let u = unit_of(unit);
        let t: SpanTotal = match rel {
            Rel::Civil { c, as_date } => {
                if *as_date {
                    SpanTotal::from((u, dt_of(*c).unwrap().date()))
                } else {
                    SpanTotal::from((u, dt_of(*c).unwrap()))
                }
            }
            Rel::Zoned { .. } => SpanTotal::from((u, zoned.as_ref().unwrap())),
            Rel::Marker => SpanTotal::from((u, SpanRelativeTo::days_are_24_hours())),
            Rel::None => SpanTotal::from(u),
        };
        sp.total(t).ok()
    });
    let got = match got {
        Err(p) => {
            cx.violation(&format!("Span::total/panic@{}", p.loc()), case, || "Ok|Err".into(), || p.what.clone());
            return;
        }
        Ok(g) => g,
    };
    let needs_rel = span.largest().unwrap_or(0).max(unit) > rel.max_unit();
    if needs_rel {
        if got.is_some() {
            cx.violation("Span::total/calendar-units-without-reference-accepted", case, || "Err".into(), || format!("{:?}", got));
        }
        return;
    }
    let (Some(x), Some(origin)) = (rel.add(span), rel.add(&MSpan::zero())) else { return };
    let Some(g) = got else {
        cx.count("total_err", 1);
        return;
    };
    let sign = (x - origin).signum() as i64;
    if sign == 0 {
        if g != 0.0 {
            cx.violation("Span::total/zero", case, || "0".into(), || format!("{}", g));
        }
        return;
    }
    if cx.opt("no_clamp_skip").is_none() && rel.day_of_month() >= 29 && (unit >= arith::MONTH || span.u[arith::MONTH] != 0 || span.u[arith::YEAR] != 0) {
        cx.count("total_skipped_day_clamping", 1);
        return;
    }
    // count whole units
    let Some(t) = greedy(rel, x, sign, unit, unit, 1) else { return };
    let k = t.u[unit];
    let Some(lo) = rel.add(&t) else { return };
    let mut up = t;
    up.u[unit] += sign;
    let Some(hi) = rel.add(&up) else {
        cx.count("total_upper_neighbour_unrepresentable", 1);
        return;
    };
    if hi == lo {
        return;
    }
    if let Rel::Zoned { z, .. } = rel {
        let c = crate::c06::model_civil(z, origin);
        let amb = |m: &MSpan| match arith::add_datetime(c, m) {
            Some(c2) => !matches!(crate::c04::model_classify(&z.model, c2), crate::c04::Class::Unambiguous(_)),
            None => true,
        };
        if unit >= arith::DAY && (amb(&t) || amb(&up)) {
            cx.count("total_skipped_ambiguous_landing", 1);
            return;
        }
    }
    let frac = (x - lo).abs() as f64 / (hi - lo).abs() as f64;
    let exp = sign as f64 * (k.abs() as f64 + frac);
    let tol = exp.abs() * 1e-12 + 1e-9;
    cx.eval(1);
    if (g - exp).abs() > tol {
        cx.violation(&format!("Span::total/value[{}]", UNIT_NAMES[unit]), case, || format!("{} ({} whole + {}/{})", exp, k, (x - lo).abs(), (hi - lo).abs()), || format!("{}", g));
    }
}

pub fn check_compare_add(cx: &mut Ctx, rel: &Rel, a: &MSpan, b: &MSpan) {
    let case = || format!("cmp|{}|{}|{}", rel.describe(), a.encode(), b.encode());
    let (Ok(sa), Ok(sb)) = (a.to_jiff(), b.to_jiff()) else { return };
    let zoned = match rel {
        Rel::Zoned { z, t } => ts_from_ns(*t).map(|ts| Zoned::new(ts, z.tz.clone())),
        _ => None,
    };
    cx.eval(3);
    let r = guard(|| {
        let rt = relto(rel, &zoned);
        let cmp = match rt {
            Some(rt) => sa.compare(SpanCompare::from((sb, rt))).ok(),
            None => sa.compare(sb).ok(),
        };
        let rt = relto(rel, &zoned);
        let sum = match rt {
            Some(rt) => sa.checked_add(SpanArithmetic::from((sb, rt))).ok(),
            None => sa.checked_add(sb).ok(),
        };
        let rt = relto(rel, &zoned);
        let dur = match rt {
            Some(rt) => sa.to_duration(rt).ok().map(|d| d.as_nanos()),
            None => jiff::SignedDuration::try_from(sa).ok().map(|d| d.as_nanos()),
        };
        (cmp, sum.map(|s| MSpan::from_jiff(&s)), dur)
    });
    let (cmp, sum, dur) = match r {
        Err(p) => {
            cx.violation(&format!("Span::compare/checked_add/to_duration/panic@{}", p.loc()), case, || "Ok|Err".into(), || p.what.clone());
            return;
        }
        Ok(x) => x,
    };
    let needs_rel = a.largest().unwrap_or(0).max(b.largest().unwrap_or(0)) > rel.max_unit();
    if needs_rel {
        if cmp.is_some() {
            cx.violation("Span::compare/calendar-units-without-reference-accepted", case, || "Err".into(), || format!("{:?}", cmp));
        }
        if sum.is_some() {
            cx.violation("Span::checked_add/calendar-units-without-reference-accepted", case, || "Err".into(), || format!("{:?}", sum.map(|m| m.show())));
        }
        return;
    }
    let (Some(xa), Some(xb), Some(origin)) = (rel.add(a), rel.add(b), rel.add(&MSpan::zero())) else { return };
    if let Some(c) = cmp {
        if c != xa.cmp(&xb) {
            cx.violation("Span::compare", case, || format!("{:?} (r+a = {}, r+b = {})", xa.cmp(&xb), xa, xb), || format!("{:?}", c));
        }
    } else {
        cx.count("compare_err", 1);
    }
    // to_duration: exact distance r -> r + a (zoned: instants; civil/marker: 24 h days)
    if let Some(d) = dur {
        if d != xa - origin {
            cx.violation("Span::to_duration", case, || format!("{}", xa - origin), || format!("{}", d));
        }
    }
    // addition: r + (a + b) == (r + a) + b, evaluated by moving the reference to r + a
    if let Some(s) = sum {
        let via_sum = rel.add(&s);
        let stepwise = match rel {
            Rel::Civil { as_date, .. } => Rel::Civil { c: Civ::from_ns(xa), as_date: *as_date }.add(b),
            Rel::Zoned { z, .. } => Rel::Zoned { z, t: xa }.add(b),
            Rel::Marker | Rel::None => Some(xa + (xb - origin)),
        };
        if let (Some(v), Some(w)) = (via_sum, stepwise) {
            let clamp = rel.day_of_month() >= 29 || Civ::from_ns(xa).ymd().2 >= 29 && matches!(rel, Rel::Civil { .. });
            let cal = a.u[arith::MONTH] != 0 || a.u[arith::YEAR] != 0 || b.u[arith::MONTH] != 0 || b.u[arith::YEAR] != 0;
            if v != w && !(clamp && cal) && !matches!(rel, Rel::Zoned { .. }) {
                cx.violation("Span::checked_add/not-the-composition", case, || format!("(r + a) + b = {}", w), || format!("r + (a+b) = {} via {}", v, s.show()));
            }
        }
    }
}

fn gen_moderate_span(r: &mut Rng, max_unit: usize) -> MSpan {
    let caps: [i64; 10] = [4_000_000_000_000, 4_000_000_000, 4_000_000_000, 40_000_000, 600_000, 20_000, 3_000, 400, 120, 30];
    let mut s = MSpan::zero();
    let sign = if r.chance(1, 2) { 1 } else { -1 };
    let n = 1 + r.below(4);
    for _ in 0..n {
        let u = r.below(max_unit as u64 + 1) as usize;
        let v = match r.below(5) {
            0 => r.range(1, 3),
            1 => r.range(1, 70),
            _ => r.range(1, caps[u]),
        };
        s.u[u] = sign * v;
    }
    s
}

fn gen_round_case(r: &mut Rng, max_unit: usize) -> RoundCase {
    let span = if r.chance(1, 10) { gen::gen_span(r, &gen::ALL_UNITS[..=max_unit.min(9)], false) } else { gen_moderate_span(r, max_unit) };
    let smallest = r.below(max_unit as u64 + 1) as usize;
    let largest = match r.below(4) {
        0 => None,
        1 => Some(r.below(10) as usize),
        _ => Some(r.range(smallest as i64, max_unit as i64) as usize),
    };
    let inc = if smallest <= arith::HOUR {
        let next = [1000i64, 1000, 1000, 60, 60, 24][smallest];
        match r.below(8) {
            0 => 0,
            1 => -1,
            2 => next,
            3 => r.range(2, next),
            _ => {
                let ds: Vec<i64> = (1..next).filter(|d| next % d == 0).collect();
                *r.pick(&ds)
            }
        }
    } else {
        *r.pick(&[1i64, 1, 1, 2, 3, 5, 7, 10, 0, -1])
    };
    RoundCase { span, smallest, largest, inc, mode: *r.pick(&MODES) }
}

pub fn run(cx: &mut Ctx) {
    if let Some(case) = cx.case.clone() {
        return replay(cx, &case);
    }
    let mut r = Rng::new(cx.shard_seed());
    // civil references, marker, none
    let n = cx.budget(4_000_000, 100_000_000);
    for i in 0..n {
        let rel = match i % 5 {
            0 => Rel::Marker,
            1 => Rel::None,
            _ => {
                let mut c = gen::gen_civ(&mut r);
                // keep the reference away from the range limits so that r + span is usually representable
                c.day = c.day.clamp(cal::MIN_DAY + 40_000, cal::MAX_DAY - 40_000);
                if r.chance(1, 2) {
                    c.nod = 0;
                }
                Rel::Civil { c, as_date: c.nod == 0 && r.chance(1, 2) }
            }
        };
        let mu = rel.max_unit();
        // deliberately exceed the permitted units sometimes
        let gen_max = if r.chance(1, 8) { 9 } else { mu };
        let rc = gen_round_case(&mut r, gen_max);
        check_round(cx, &rel, &rc);
        if i % 3 == 0 {
            // moderate spans, and (every 4th) spans up to the limits of their units: totals beyond i64 nanoseconds
            let s = if i % 12 == 0 { gen::gen_span(&mut r, &gen::ALL_UNITS[..=gen_max.min(9)], false) } else { gen_moderate_span(&mut r, gen_max) };
            check_total(cx, &rel, &s, r.below(gen_max as u64 + 1) as usize);
            let b = gen_moderate_span(&mut r, gen_max);
            check_compare_add(cx, &rel, &s, &b);
        }
        if i % 50_000 == 1 {
            cx.sample(|| format!("{} round {}", rel.describe(), rc.encode()));
        }
    }
    // zoned references
    let years = zones::probe_years(&mut Rng::new(cx.seed), false);
    let ids = zones::corpus_ids(&cx.work);
    let stride = if cx.thorough { 3 } else { 13 };
    let mut zs: Vec<ZoneCase> = Vec::new();
    for (i, id) in ids.iter().enumerate() {
        if (i as u64 % stride == cx.seed % stride || id.contains(":Odd/")) && cx.mine(i as u64) {
            if let Ok(z) = zones::resolve(id, &cx.work) {
                zs.push(z);
            }
        }
    }
    let cor = tzmon::corroborate_all(&zs, &cx.work, &years);
    let per_zone = if cx.thorough { 40_000 } else { 6_000 };
    for (z, c) in zs.iter().zip(cor.iter()) {
        if !c.ok() || z.model.d10_zone() {
            cx.count("zones_skipped_no_verdict", 1);
            continue;
        }
        cx.count("zones", 1);
        let changes = z.model.changes(zones::TS_MIN + 400 * 86400 * 365, zones::TS_MAX - 400 * 86400 * 365, &years);
        for k in 0..per_zone {
            let t: i128 = if !changes.is_empty() && k % 4 != 3 {
                let c = *r.pick(&changes);
                (c as i128 + r.range(-172_800, 172_800) as i128) * NS + *r.pick(&[0i64, 0, 1, 500_000_000]) as i128
            } else {
                r.range128(MIN_NS / 2, MAX_NS / 2)
            };
            let rel = Rel::Zoned { z, t: t.clamp(MIN_NS / 2, MAX_NS / 2) };
            let mut rc = gen_round_case(&mut r, 9);
            if k % 2 == 0 {
                // small spans that stay on the DST day
                let sign = if r.chance(1, 2) { 1 } else { -1 };
                rc.span = MSpan::zero();
                rc.span.u[arith::DAY] = sign * r.range(0, 3);
                rc.span.u[arith::HOUR] = sign * r.range(0, 49);
                rc.span.u[arith::MIN] = sign * r.range(0, 90);
                rc.span.u[arith::SEC] = sign * r.range(0, 4000);
            }
            check_round(cx, &rel, &rc);
            if k % 3 == 0 {
                let s = gen_moderate_span(&mut r, 9);
                check_total(cx, &rel, &s, r.below(10) as usize);
                let b = gen_moderate_span(&mut r, 9);
                check_compare_add(cx, &rel, &s, &b);
            }
            cx.count("zoned_cases", 1);
        }
    }
}

fn parse_rel<'a>(s: &str, holder: &'a mut Option<ZoneCase>, work: &str) -> Option<Rel<'a>> {
    let p: Vec<&str> = s.splitn(2, ':').collect();
    match p[0] {
        "marker" => Some(Rel::Marker),
        "none" => Some(Rel::None),
        "civil" => {
            let q: Vec<i64> = p[1].split(':').filter_map(|x| x.parse().ok()).collect();
            Some(Rel::Civil { c: Civ { day: q[0], nod: q[1] }, as_date: q[2] == 1 })
        }
        "zoned" => {
            let (id, t) = p[1].rsplit_once(':')?;
            *holder = zones::resolve(id, work).ok();
            let z = holder.as_ref()?;
            Some(Rel::Zoned { z, t: t.parse().ok()? })
        }
        _ => None,
    }
}

fn replay(cx: &mut Ctx, case: &str) {
    let p: Vec<&str> = case.split('|').collect();
    let mut holder = None;
    let work = cx.work.clone();
    let Some(rel) = parse_rel(p[1], &mut holder, &work) else { return cx.inconclusive("bad reference") };
    match p[0] {
        "round" => {
            let span = MSpan::decode(p[2]).unwrap_or_default();
            let largest: i64 = p[4].parse().unwrap_or(-1);
            let rc = RoundCase { span, smallest: p[3].parse().unwrap_or(0), largest: if largest < 0 { None } else { Some(largest as usize) }, inc: p[5].parse().unwrap_or(1), mode: MODES[p[6].parse::<usize>().unwrap_or(0).min(8)] };
            println!("r + span = {:?}", rel.add(&rc.span));
            check_round(cx, &rel, &rc);
        }
        "total" => check_total(cx, &rel, &MSpan::decode(p[2]).unwrap_or_default(), p[3].parse().unwrap_or(0)),
        "cmp" => check_compare_add(cx, &rel, &MSpan::decode(p[2]).unwrap_or_default(), &MSpan::decode(p[3]).unwrap_or_default()),
        _ => cx.inconclusive("bad case"),
    }
    println!("replay {}: evaluations={} violations={}", case, cx.evals, cx.viol_total);
}

//! The zone corpus: system zoneinfo files, bundled jiff-tzdb, synthetic zic
//! output from the work directory, generated POSIX TZ strings.

use crate::rng::Rng;
use crate::tzref::{self, Zone};
use jiff::tz::TimeZone;
use std::path::{Path, PathBuf};

pub const TS_MIN: i64 = -377705023201;
pub const TS_MAX: i64 = 253402207200;

pub struct ZoneCase {
    /// e.g. "sys:America/New_York", "bundled:Europe/Dublin", "synth-slim:Odd/SubMinute", "posix:EST5EDT,M3.2.0,M11.1.0"
    pub id: String,
    pub name: String,
    pub src: &'static str,
    pub bytes: Option<Vec<u8>>,
    pub path: Option<PathBuf>,
    pub posix: Option<String>,
    pub model: Zone,
    pub tz: TimeZone,
}

fn walk(dir: &Path, rel: &str, out: &mut Vec<(String, PathBuf)>) {
    let Ok(rd) = std::fs::read_dir(dir) else { return };
    let mut ents: Vec<_> = rd.flatten().collect();
    ents.sort_by_key(|e| e.file_name());
    for e in ents {
        let name = e.file_name().to_string_lossy().into_owned();
        let p = e.path();
        let r = if rel.is_empty() { name.clone() } else { format!("{}/{}", rel, name) };
        let Ok(md) = std::fs::metadata(&p) else { continue };
        if md.is_dir() {
            if rel.is_empty() && (name == "right" || name == "posix") {
                continue;
            }
            walk(&p, &r, out);
        } else if md.is_file() {
            out.push((r, p));
        }
    }
}

/// All TZif files below `dir` as (relative name, path), sorted.
pub fn tzif_files(dir: &str) -> Vec<(String, PathBuf)> {
    let mut v = Vec::new();
    walk(Path::new(dir), "", &mut v);
    v.retain(|(_, p)| {
        use std::io::Read;
        let mut magic = [0u8; 4];
        std::fs::File::open(p).and_then(|mut f| f.read_exact(&mut magic)).is_ok() && &magic == b"TZif"
    });
    v
}

pub fn from_bytes(src: &'static str, name: &str, bytes: Vec<u8>, path: Option<PathBuf>) -> Result<ZoneCase, String> {
    let model = tzref::parse_tzif(&bytes).map_err(|e| format!("model rejects {}: {}", name, e))?;
    let tz = TimeZone::tzif(name, &bytes).map_err(|e| format!("jiff rejects {}: {}", name, e))?;
    Ok(ZoneCase { id: format!("{}:{}", src, name), name: name.to_string(), src, bytes: Some(bytes), path, posix: None, model: Zone::Tzif(model), tz })
}

pub fn from_posix(s: &str) -> Result<ZoneCase, String> {
    let model = tzref::parse_posix(s).map_err(|e| format!("model rejects {:?}: {}", s, e))?;
    let tz = TimeZone::posix(s).map_err(|e| format!("jiff rejects {:?}: {}", s, e))?;
    Ok(ZoneCase { id: format!("posix:{}", s), name: s.to_string(), src: "posix", bytes: None, path: None, posix: Some(s.to_string()), model: Zone::Posix(model), tz })
}

/// System zoneinfo (main tree only; `right/` carries leap seconds which
/// zdump applies and neither jiff nor the model do; `posix/` duplicates).
pub fn system() -> Vec<(String, PathBuf)> {
    tzif_files("/usr/share/zoneinfo")
}

pub fn bundled_names() -> Vec<&'static str> {
    jiff_tzdb::available().collect()
}

/// Synthetic zones compiled by the driver: work/synth/{slim,fat}/...
pub fn synthetic(work: &str) -> Vec<(&'static str, String, PathBuf)> {
    let mut v = Vec::new();
    for (src, sub) in [("synth-slim", "slim"), ("synth-fat", "fat")] {
        for (n, p) in tzif_files(&format!("{}/synth/{}", work, sub)) {
            v.push((src, n, p));
        }
    }
    v
}

/// Resolve a zone id (as stored in replay cases) back into a ZoneCase.
pub fn resolve(id: &str, work: &str) -> Result<ZoneCase, String> {
    let (src, name) = id.split_once(':').ok_or("bad zone id")?;
    match src {
        "sys" => {
            let p = PathBuf::from(format!("/usr/share/zoneinfo/{}", name));
            let b = std::fs::read(&p).map_err(|e| e.to_string())?;
            from_bytes("sys", name, b, Some(p))
        }
        "bundled" => {
            let (n, b) = jiff_tzdb::get(name).ok_or("no such bundled zone")?;
            from_bytes("bundled", n, b.to_vec(), None)
        }
        "synth-slim" | "synth-fat" => {
            let sub = if src == "synth-slim" { "slim" } else { "fat" };
            let p = PathBuf::from(format!("{}/synth/{}/{}", work, sub, name));
            let b = std::fs::read(&p).map_err(|e| format!("{}: {}", p.display(), e))?;
            from_bytes(if src == "synth-slim" { "synth-slim" } else { "synth-fat" }, name, b, Some(p))
        }
        "posix" => from_posix(name),
        "fixed" => {
            let o: i32 = name.parse().map_err(|_| "bad fixed")?;
            Ok(ZoneCase {
                id: id.to_string(),
                name: name.to_string(),
                src: "fixed",
                bytes: None,
                path: None,
                posix: None,
                model: Zone::Fixed(o),
                tz: TimeZone::fixed(jiff::tz::Offset::from_seconds(o).map_err(|e| e.to_string())?),
            })
        }
        _ => Err(format!("unknown zone source {}", src)),
    }
}

/// The list of zone ids making up the corpus Z (without POSIX strings).
pub fn corpus_ids(work: &str) -> Vec<String> {
    let mut v = Vec::new();
    for (n, _) in system() {
        v.push(format!("sys:{}", n));
    }
    for n in bundled_names() {
        v.push(format!("bundled:{}", n));
    }
    for (src, n, _) in synthetic(work) {
        v.push(format!("{}:{}", src, n));
    }
    v
}

// ---------------------------------------------------------------------------
// POSIX TZ string generator (valid strings only; hostile but well-formed)

fn gen_abbr(r: &mut Rng) -> String {
    if r.chance(1, 3) {
        let n = 3 + r.below(4) as usize;
        let mut s = String::from("<");
        for i in 0..n {
            let c = match r.below(4) {
                0 if i > 0 => b'0' + r.below(10) as u8,
                1 => {
                    if r.chance(1, 2) {
                        b'+'
                    } else {
                        b'-'
                    }
                }
                _ => b'A' + r.below(26) as u8,
            };
            s.push(c as char);
        }
        s.push('>');
        s
    } else {
        let n = 3 + r.below(4) as usize;
        (0..n).map(|_| (if r.chance(1, 5) { b'a' } else { b'A' } + r.below(26) as u8) as char).collect()
    }
}

fn gen_hms(r: &mut Rng, max_h: i64, signed: bool) -> String {
    let mut s = String::new();
    if signed {
        match r.below(3) {
            0 => s.push('-'),
            1 => s.push('+'),
            _ => {}
        }
    }
    let h = if r.chance(1, 4) { max_h } else { r.range(0, max_h) };
    s.push_str(&h.to_string());
    match r.below(4) {
        0 => {}
        1 => s.push_str(&format!(":{:02}", r.range(0, 59))),
        2 => s.push_str(&format!(":{:02}:{:02}", r.range(0, 59), r.range(0, 59))),
        _ => s.push_str(if r.chance(1, 2) { ":30" } else { ":59:59" }),
    }
    s
}

fn gen_rule(r: &mut Rng) -> String {
    let mut s = match r.below(6) {
        0 => format!("J{}", *r.pick(&[1, 59, 60, 61, 365, 100, 200, 300])),
        // zero-based day 365 exists only in leap years (unspecified otherwise): not generated
        1 => format!("{}", *r.pick(&[0, 58, 59, 60, 363, 364, 100, 250])),
        _ => format!("M{}.{}.{}", r.range(1, 12), r.range(1, 5), r.range(0, 6)),
    };
    if r.chance(2, 3) {
        s.push('/');
        if r.chance(1, 4) {
            s.push_str(&gen_hms(r, 167, true));
        } else {
            s.push_str(&gen_hms(r, 26, false));
        }
    }
    s
}

fn fmt_posix_off(utoff: i64) -> String {
    // POSIX offsets are written west-positive
    let w = -utoff;
    let a = w.abs();
    let mut s = String::new();
    if w < 0 {
        s.push('-');
    }
    s.push_str(&format!("{}", a / 3600));
    if a % 3600 != 0 {
        s.push_str(&format!(":{:02}", a / 60 % 60));
        if a % 60 != 0 {
            s.push_str(&format!(":{:02}", a % 60));
        }
    }
    s
}

fn gen_posix_once(r: &mut Rng) -> String {
    let mut s = gen_abbr(r);
    let std_s = gen_hms(r, 24, true);
    s.push_str(&std_s);
    if r.chance(1, 6) {
        return s;
    }
    s.push_str(&gen_abbr(r));
    if r.chance(1, 2) {
        // explicit DST offset: std + delta, |delta| <= 4 h (real-world maximum
        // is 2 h); larger jumps make gap and fold windows overlap
        let std_utoff = tzref::parse_posix(&format!("AAA{}", std_s)).map(|p| p.std_utoff as i64).unwrap_or(0);
        let delta = match r.below(10) {
            0 => 1800,
            1 => 7200,
            2 => 1200,
            3 => -3600,
            4 => 5400,
            5 => 3 * 3600,
            6 => {
                let d = r.range(-4 * 3600, 4 * 3600);
                if d == 0 {
                    3600
                } else {
                    d
                }
            }
            _ => 3600,
        };
        let dst = (std_utoff + delta).clamp(-(24 * 3600 + 59 * 60 + 59), 24 * 3600 + 59 * 60 + 59);
        s.push_str(&fmt_posix_off(dst));
    }
    s.push(',');
    s.push_str(&gen_rule(r));
    s.push(',');
    s.push_str(&gen_rule(r));
    s
}

/// A seeded, valid POSIX TZ string. Strings whose DST start and end come
/// closer than 3 days to each other (in any of 28 consecutive years) are
/// rejected: their gap and fold windows can overlap, which is outside the
/// space this framework explores (stated in the evidence rule).
pub fn gen_posix(r: &mut Rng) -> String {
    for _ in 0..200 {
        let s = gen_posix_once(r);
        let Ok(p) = tzref::parse_posix(&s) else { continue };
        if p.dst.is_none() {
            return s;
        }
        if p.dst.as_ref().map(|d| d.utoff == p.std_utoff).unwrap_or(false) {
            continue;
        }
        let mut ok = true;
        let mut ev: Vec<i64> = Vec::new();
        for y in 1999..2029 {
            let (a, b) = p.events(y).unwrap();
            ev.push(a);
            ev.push(b);
        }
        ev.sort();
        for w in ev.windows(2) {
            if w[1] - w[0] < 3 * 86400 {
                ok = false;
            }
        }
        if ok {
            return s;
        }
    }
    "EST5EDT,M3.2.0,M11.1.0".to_string()
}

pub const FIXED_POSIX: &[&str] = &[
    "EST5EDT,M3.2.0,M11.1.0",
    "CET-1CEST,M3.5.0,M10.5.0/3",
    "AEST-10AEDT,M10.1.0,M4.1.0/3",
    "IST-1GMT0,M10.5.0,M3.5.0/1",
    "<-03>3<-02>,M3.5.0/-2,M10.5.0/-1",
    "NZST-12NZDT,M9.5.0,M4.1.0/3",
    "<+1030>-10:30<+11>-11,M10.1.0,M4.1.0",
    "XXX-2<+01>-1,0/0,J365/23",
    "EST5",
    "<+0545>-5:45",
    "WART4WARST,J1/0,J365/25",
    "IST-2IDT,M3.4.4/26,M10.5.0",
    "EET-2EEST,M3.5.0/3,M10.5.0/4",
    "AAA0:00:01BBB-0:00:01,M1.1.0/0,M12.5.6/167:59:59",
    "ABC24:59:59DEF22:59:59,J60/-167:59:59,J59/167",
    // empty DST period: DST ends at the very instant it starts (what zic writes for such a rule pair)
    "XST3XDT,J100,J100/3",
    "XST3XDT2,J100/2:00,J100/3:00",
    // DST with the same offset as standard time (what zic writes for a SAVE 0 rule): only flag and abbreviation change
    "XST3XDT3,M3.2.0,M11.1.0",
    "<+02>-2<+02s>-2,M10.1.0,M3.3.0/3",
    // clocks go back to 00:00 (the day starts twice) and forward from 00:00 (Havana style)
    "CST5CDT,M3.2.0/0,M11.1.0/1",
    "<-01>1<+00>0,M3.5.0/0,M10.5.0/1",
];

/// Instants of interest for a zone: around every explicit transition and the
/// rule transitions of the given years, plus limits.
pub fn probe_years(r: &mut Rng, thorough: bool) -> Vec<i64> {
    let mut ys: Vec<i64> = Vec::new();
    if thorough {
        ys.extend(-9999..=9999);
    } else {
        ys.extend(1900..=2100);
        ys.extend([-9999, -9998, -1, 0, 1, 2, 1582, 2400, 9997, 9998, 9999]);
        for _ in 0..40 {
            ys.push(r.range(-9999, 9999));
        }
        ys.sort();
        ys.dedup();
    }
    ys
}

//! Shared time-zone monitoring machinery: probe instants, jiff-side lookups,
//! corroboration of the reference model against zdump (glibc tz code).

use crate::cal;
use crate::rng::Rng;
use crate::tzref::{Info, Zone};
use crate::zones::{ZoneCase, TS_MAX, TS_MIN};
use jiff::tz::TimeZone;
use jiff::Timestamp;
use std::collections::BTreeSet;
use std::process::Command;

pub fn ts(sec: i64, ns: i32) -> Option<Timestamp> {
    Timestamp::new(sec, ns).ok()
}

/// (second, nanosecond >= 0) floor representation -> jiff Timestamp
pub fn ts_floor(sec: i64, ns: u32) -> Option<Timestamp> {
    // jiff wants second and nanosecond with the same sign
    if sec < 0 && ns > 0 {
        Timestamp::new(sec + 1, ns as i32 - 1_000_000_000).ok()
    } else {
        Timestamp::new(sec, ns as i32).ok()
    }
}

/// floor second of a jiff timestamp
pub fn floor_sec(t: Timestamp) -> i64 {
    let s = t.as_second();
    if t.subsec_nanosecond() < 0 {
        s - 1
    } else {
        s
    }
}

pub fn jiff_info(tz: &TimeZone, t: Timestamp) -> Info {
    let i = tz.to_offset_info(t);
    Info { utoff: i.offset().seconds(), isdst: i.dst().is_dst(), abbr: i.abbreviation().to_string() }
}

/// Probe instants around the candidate change points of a zone.
/// Returns (floor second, nanosecond) pairs, sorted and deduplicated.
pub fn probe_instants(model: &Zone, years: &[i64], r: &mut Rng, n_random: usize) -> Vec<(i64, u32)> {
    let mut v: BTreeSet<(i64, u32)> = BTreeSet::new();
    let cands = model.candidates(TS_MIN - 2, TS_MAX + 2, years);
    for &t in &cands {
        for p in [(t - 1, 0u32), (t - 1, 999_999_999), (t - 1, 500_000_000), (t, 0), (t, 1), (t + 1, 0), (t - 2, 1), (t, 999_999_999)] {
            v.insert(p);
        }
    }
    for p in [(TS_MIN, 0), (TS_MIN, 1), (TS_MIN + 1, 0), (TS_MAX, 0), (TS_MAX - 1, 999_999_999), (TS_MAX - 1, 0), (0, 0), (-1, 999_999_999), (-1, 0), (0, 1)] {
        v.insert(p);
    }
    for _ in 0..n_random {
        let s = r.range(TS_MIN, TS_MAX - 1);
        let ns = match r.below(3) {
            0 => 0,
            1 => r.below(1_000_000_000) as u32,
            _ => 999_999_999,
        };
        v.insert((s, ns));
    }
    v.into_iter().filter(|&(s, ns)| (s > TS_MIN || (s == TS_MIN)) && (s < TS_MAX || (s == TS_MAX && ns == 0)) && s >= TS_MIN).collect()
}

// ---------------------------------------------------------------------------
// zdump corroboration

const MONTHS: [&str; 12] = ["Jan", "Feb", "Mar", "Apr", "May", "Jun", "Jul", "Aug", "Sep", "Oct", "Nov", "Dec"];

#[derive(Debug, Clone)]
pub struct ZdLine {
    pub t: i64,
    pub info: Info,
}

fn parse_zdump_line(line: &str) -> Option<ZdLine> {
    let (l, r) = line.split_once(" UT = ")?;
    let lt: Vec<&str> = l.split_whitespace().collect();
    if lt.len() < 5 {
        return None;
    }
    let n = lt.len();
    let year: i64 = lt[n - 1].parse().ok()?;
    let hms: Vec<i64> = lt[n - 2].split(':').filter_map(|x| x.parse().ok()).collect();
    if hms.len() != 3 {
        return None;
    }
    let day: i64 = lt[n - 3].parse().ok()?;
    let mon = MONTHS.iter().position(|m| *m == lt[n - 4])? as i64 + 1;
    let t = cal::days_from_civil(year, mon, day) * 86400 + hms[0] * 3600 + hms[1] * 60 + hms[2];
    let rt: Vec<&str> = r.split_whitespace().collect();
    // Dow Mon d time year abbr isdst=.. gmtoff=..
    if rt.len() < 8 {
        return None;
    }
    let m = rt.len();
    let gmtoff: i32 = rt[m - 1].strip_prefix("gmtoff=")?.parse().ok()?;
    let isdst: i32 = rt[m - 2].strip_prefix("isdst=")?.parse().ok()?;
    let abbr = rt[m - 3].to_string();
    Some(ZdLine { t, info: Info { utoff: gmtoff, isdst: isdst != 0, abbr } })
}

pub fn zdump(arg: &str, lo_year: i64, hi_year: i64) -> Result<Vec<ZdLine>, String> {
    let out = Command::new("/usr/bin/zdump").arg("-v").arg("-c").arg(format!("{},{}", lo_year, hi_year)).arg(arg).output().map_err(|e| format!("zdump: {}", e))?;
    if !out.status.success() {
        return Err(format!("zdump exit {:?}", out.status.code()));
    }
    let text = String::from_utf8_lossy(&out.stdout);
    Ok(text.lines().filter_map(parse_zdump_line).collect())
}

#[derive(Debug, Default, Clone)]
pub struct Corrob {
    pub zd_lines: u64,
    pub zd_transitions: u64,
    pub zd_ok: bool,
    pub zd_why: String,
    pub py_points: u64,
    pub py_ok: bool,
    pub py_why: String,
}

impl Corrob {
    /// The model is believed for a zone when at least one independent
    /// implementation (glibc via zdump, CPython zoneinfo) agrees with it.
    pub fn ok(&self) -> bool {
        self.zd_ok || self.py_ok
    }
    pub fn why(&self) -> String {
        format!("zdump: {}; zoneinfo: {}", self.zd_why, self.py_why)
    }
}

pub fn root() -> String {
    std::env::var("JV_ROOT").unwrap_or_else(|_| "/verif".to_string())
}

fn temp_file_for(z: &ZoneCase, work: &str) -> Option<(String, bool)> {
    if let Some(p) = &z.path {
        Some((p.to_string_lossy().into_owned(), false))
    } else if let Some(b) = &z.bytes {
        let p = format!("{}/zd-{}-{:016x}", work, std::process::id(), crate::rng::hash64(z.id.as_bytes()));
        std::fs::write(&p, b).ok()?;
        Some((p, true))
    } else {
        None
    }
}

/// Compare the reference model with zdump.
fn corroborate_zdump(z: &ZoneCase, work: &str, c: &mut Corrob) {
    let (arg, temp, lo_year, hi_year) = if let Some(s) = &z.posix {
        // glibc evaluates TZ strings only from 1970 on
        (s.clone(), false, 1971, 2200)
    } else if let Some((p, t)) = temp_file_for(z, work) {
        (p, t, 1800, 2200)
    } else {
        c.zd_ok = true;
        c.zd_why = "fixed offset".into();
        return;
    };
    let res = zdump(&arg, lo_year, hi_year);
    if temp {
        let _ = std::fs::remove_file(&arg);
    }
    let lines = match res {
        Ok(l) => l,
        Err(e) => {
            c.zd_why = e;
            return;
        }
    };
    c.zd_lines = lines.len() as u64;
    let mut zt: BTreeSet<i64> = BTreeSet::new();
    for w in lines.windows(2) {
        if w[1].t - w[0].t == 1 && w[0].info != w[1].info {
            zt.insert(w[1].t);
        }
    }
    c.zd_transitions = zt.len() as u64;
    let lo = cal::days_from_civil(lo_year, 1, 3) * 86400;
    let hi = cal::days_from_civil(hi_year, 1, 1) * 86400 - 3 * 86400;
    let years: Vec<i64> = (lo_year - 1..=hi_year + 1).collect();
    let mc: Vec<i64> = z.model.changes(lo, hi, &years);
    if lines.is_empty() && !mc.is_empty() {
        c.zd_why = "zdump printed no usable lines".into();
        return;
    }
    for l in &lines {
        let m = z.model.info(l.t);
        if m != l.info {
            c.zd_why = format!("model {:?} != zdump {:?} at {}", m, l.info, l.t);
            return;
        }
    }
    let mset: BTreeSet<i64> = mc.iter().copied().collect();
    for &t in &zt {
        if t >= lo && t <= hi && !mset.contains(&t) {
            c.zd_why = format!("zdump transition {} unknown to the model", t);
            return;
        }
    }
    for (i, &t) in mc.iter().enumerate() {
        if !zt.contains(&t) {
            // zdump scans in 12 h steps: changes closer than that may cancel out
            let near = (i > 0 && t - mc[i - 1] <= 43200 + 1) || (i + 1 < mc.len() && mc[i + 1] - t <= 43200 + 1);
            if !near {
                c.zd_why = format!("model change {} not reported by zdump", t);
                return;
            }
        }
    }
    c.zd_ok = true;
    c.zd_why = "agree".into();
}

/// Instants at which CPython's zoneinfo is asked for its opinion.
fn py_instants(z: &ZoneCase, years: &[i64]) -> Vec<i64> {
    // python datetime covers years 1..9999
    let lo = cal::days_from_civil(2, 1, 1) * 86400;
    let hi = cal::days_from_civil(9998, 12, 1) * 86400;
    let ys: Vec<i64> = years.iter().copied().filter(|y| (2..=9998).contains(y)).collect();
    let cands = z.model.candidates(lo, hi, &ys);
    let mut v = Vec::new();
    let step = (cands.len() / 1500).max(1);
    for (i, &t) in cands.iter().enumerate() {
        if i % step == 0 || i + 1 == cands.len() {
            v.push(t - 1);
            v.push(t);
            v.push(t + 3600);
        }
    }
    for t in [lo, 0, 1_000_000_000, 4_000_000_000, hi] {
        v.push(t);
    }
    v
}

/// Corroborate the model for a batch of zones (one python process per batch).
pub fn corroborate_all(zs: &[ZoneCase], work: &str, years: &[i64]) -> Vec<Corrob> {
    let mut out: Vec<Corrob> = zs.iter().map(|_| Corrob::default()).collect();
    for (i, z) in zs.iter().enumerate() {
        corroborate_zdump(z, work, &mut out[i]);
    }
    // python
    let mut req = String::new();
    let mut temps = Vec::new();
    let mut asked: Vec<Vec<i64>> = Vec::new();
    for z in zs {
        let inst = if z.src == "fixed" { Vec::new() } else { py_instants(z, years) };
        if let Some(s) = &z.posix {
            req.push_str(&format!("Z posix {}\n", s));
        } else if let Some((p, t)) = temp_file_for(z, work) {
            req.push_str(&format!("Z file {}\n", p));
            if t {
                temps.push(p);
            }
        } else {
            req.push_str("Z posix UTC0\n");
        }
        for chunk in inst.chunks(500) {
            req.push_str("T");
            for t in chunk {
                req.push_str(&format!(" {}", t));
            }
            req.push('\n');
        }
        asked.push(inst);
    }
    let tag = format!("{}-{:x}", std::process::id(), crate::rng::hash64(req.as_bytes()));
    let reqp = format!("{}/pyreq-{}", work, tag);
    let outp = format!("{}/pyout-{}", work, tag);
    let mut py_err = None;
    if std::fs::write(&reqp, &req).is_err() {
        py_err = Some("cannot write request".to_string());
    } else {
        match Command::new("python3").arg(format!("{}/tools/pyzi.py", root())).arg(&reqp).arg(&outp).output() {
            Ok(o) if o.status.success() => {}
            Ok(o) => py_err = Some(format!("pyzi failed: {}", String::from_utf8_lossy(&o.stderr).chars().take(300).collect::<String>())),
            Err(e) => py_err = Some(format!("python3: {}", e)),
        }
    }
    let text = std::fs::read_to_string(&outp).unwrap_or_default();
    let _ = std::fs::remove_file(&reqp);
    let _ = std::fs::remove_file(&outp);
    for p in temps {
        let _ = std::fs::remove_file(p);
    }
    if let Some(e) = py_err {
        for c in out.iter_mut() {
            c.py_why = e.clone();
        }
        return out;
    }
    let mut lines = text.lines();
    for (i, z) in zs.iter().enumerate() {
        let c = &mut out[i];
        if lines.next() != Some("Z") {
            c.py_why = "protocol error".into();
            continue;
        }
        if z.src == "fixed" {
            c.py_ok = true;
            c.py_why = "fixed offset".into();
            continue;
        }
        let mut ok = true;
        let mut n = 0u64;
        for &t in &asked[i] {
            let Some(l) = lines.next() else {
                ok = false;
                c.py_why = "short output".into();
                break;
            };
            if !ok {
                continue;
            }
            if l == "ERR" {
                continue;
            }
            let mut it = l.splitn(3, ' ');
            let utoff: i32 = it.next().and_then(|x| x.parse().ok()).unwrap_or(i32::MIN);
            let _isdst = it.next();
            let abbr = it.next().unwrap_or("");
            let m = z.model.info(t);
            // zoneinfo's dst() is a heuristic for table transitions, so only
            // offset and abbreviation are compared
            if m.utoff != utoff || m.abbr != abbr {
                ok = false;
                c.py_why = format!("model {:?} != zoneinfo ({}, {}) at {}", m, utoff, abbr, t);
            } else {
                n += 1;
            }
        }
        c.py_points = n;
        if ok && n < 4 {
            ok = false;
            c.py_why = "too few comparable instants".into();
        }
        if ok {
            c.py_ok = true;
            c.py_why = "agree".into();
        }
    }
    out
}

/// Civil (day, nanosecond-of-day) shown by the model at an instant.
pub fn model_civil(model: &Zone, sec: i64, ns: u32) -> (cal::Civ, i32) {
    let off = model.utoff(sec);
    let total = (sec as i128 + off as i128) * 1_000_000_000 + ns as i128;
    (cal::Civ::from_ns(total), off)
}

pub fn civ_of(dt: jiff::civil::DateTime) -> cal::Civ {
    // invalid field combinations map to a sentinel (see gen::day_of_date)
    let day = crate::gen::day_of_date(dt.date());
    if day < cal::MIN_DAY - 10 || crate::gen::nod_of_time(dt.time()) < 0 {
        return cal::Civ { day: i64::MIN / 4, nod: 0 };
    }
    let nod = ((dt.hour() as i64 * 60 + dt.minute() as i64) * 60 + dt.second() as i64) * 1_000_000_000 + dt.subsec_nanosecond() as i64;
    cal::Civ { day, nod }
}

pub fn dt_of(c: cal::Civ) -> Option<jiff::civil::DateTime> {
    if !c.in_range() {
        return None;
    }
    let (y, m, d) = c.ymd();
    let (h, mi, s, ns) = c.hms();
    jiff::civil::DateTime::new(y as i16, m as i8, d as i8, h as i8, mi as i8, s as i8, ns as i32).ok()
}

//! C09 — datetimes print to RFC 3339 / RFC 9557 text that parses back to the
//! same value; an independent reader decodes the same instant.

use crate::c02::{ts_from_ns, MAX_NS, MIN_NS};
use crate::cal::{self, Civ, NS_DAY};
use crate::gen::{self, date_of_day, day_of_date, nod_of_time, time_of_nod};
use crate::rep::{guard, Ctx};
use crate::rng::{hash64, hash_mix, Rng};
use crate::tzmon::{self, civ_of, dt_of};
use crate::zones;
use jiff::civil::{Date, DateTime, Time};
use jiff::fmt::temporal::{DateTimeParser, DateTimePrinter};
use jiff::tz::{Offset, TimeZone};
use jiff::{Timestamp, Zoned};

const NS: i128 = 1_000_000_000;

// ---------------------------------------------------------------------------
// the independent reader (strict RFC 3339 / RFC 9557 subset, expanded years)

#[derive(Debug, Clone, PartialEq)]
pub struct Read {
    pub civil_ns: i128,
    /// None: no offset; Some(None): 'Z'; Some(Some(secs))
    pub offset: Option<Option<i32>>,
    pub annotations: Vec<String>,
    pub frac_digits: usize,
}

fn digits(b: &[u8], i: &mut usize, n: usize) -> Option<i64> {
    if *i + n > b.len() {
        return None;
    }
    let mut v = 0i64;
    for k in 0..n {
        let c = b[*i + k];
        if !c.is_ascii_digit() {
            return None;
        }
        v = v * 10 + (c - b'0') as i64;
    }
    *i += n;
    Some(v)
}

/// date part: YYYY-MM-DD or +-YYYYYY-MM-DD
fn read_date(b: &[u8], i: &mut usize) -> Option<i64> {
    let y = if *i < b.len() && (b[*i] == b'+' || b[*i] == b'-') {
        let neg = b[*i] == b'-';
        *i += 1;
        let y = digits(b, i, 6)?;
        if neg && y == 0 {
            return None; // -000000 is not allowed
        }
        if neg {
            -y
        } else {
            y
        }
    } else {
        digits(b, i, 4)?
    };
    if b.get(*i) != Some(&b'-') {
        return None;
    }
    *i += 1;
    let m = digits(b, i, 2)?;
    if b.get(*i) != Some(&b'-') {
        return None;
    }
    *i += 1;
    let d = digits(b, i, 2)?;
    if !cal::valid(y, m, d) {
        return None;
    }
    Some(cal::days_from_civil(y, m, d))
}

fn read_time(b: &[u8], i: &mut usize) -> Option<(i64, usize)> {
    let h = digits(b, i, 2)?;
    if b.get(*i) != Some(&b':') {
        return None;
    }
    *i += 1;
    let m = digits(b, i, 2)?;
    if b.get(*i) != Some(&b':') {
        return None;
    }
    *i += 1;
    let s = digits(b, i, 2)?;
    if h > 23 || m > 59 || s > 59 {
        return None;
    }
    let mut ns = 0i64;
    let mut nd = 0usize;
    if b.get(*i) == Some(&b'.') {
        *i += 1;
        let mut scale = 100_000_000i64;
        while *i < b.len() && b[*i].is_ascii_digit() {
            if nd >= 9 {
                return None;
            }
            ns += (b[*i] - b'0') as i64 * scale;
            scale /= 10;
            nd += 1;
            *i += 1;
        }
        if nd == 0 {
            return None;
        }
    }
    Some(((h * 3600 + m * 60 + s) * 1_000_000_000 + ns, nd))
}

/// A full datetime: date 'T' time [offset] [annotations]
pub fn read_datetime(s: &str, seps: &[u8]) -> Option<Read> {
    let b = s.as_bytes();
    let mut i = 0;
    let day = read_date(b, &mut i)?;
    if i >= b.len() || !seps.contains(&b[i]) {
        return None;
    }
    i += 1;
    let (nod, frac_digits) = read_time(b, &mut i)?;
    let mut offset = None;
    if i < b.len() {
        match b[i] {
            b'Z' | b'z' => {
                offset = Some(None);
                i += 1;
            }
            b'+' | b'-' => {
                let neg = b[i] == b'-';
                i += 1;
                let h = digits(b, &mut i, 2)?;
                if b.get(i) != Some(&b':') {
                    return None;
                }
                i += 1;
                let m = digits(b, &mut i, 2)?;
                let mut secs = h * 3600 + m * 60;
                if b.get(i) == Some(&b':') {
                    // seconds in the offset are an RFC 9557-era extension jiff may print for annotations only
                    i += 1;
                    secs += digits(b, &mut i, 2)?;
                }
                if h > 25 || m > 59 {
                    return None;
                }
                offset = Some(Some(if neg { -secs } else { secs } as i32));
            }
            _ => {}
        }
    }
    let mut annotations = Vec::new();
    while i < b.len() && b[i] == b'[' {
        let end = b[i..].iter().position(|&c| c == b']')? + i;
        annotations.push(String::from_utf8_lossy(&b[i + 1..end]).into_owned());
        i = end + 1;
    }
    if i != b.len() {
        return None;
    }
    Some(Read { civil_ns: day as i128 * NS_DAY + nod as i128, offset, annotations, frac_digits })
}

fn trunc_to(ns: i128, digits: usize) -> i128 {
    let unit = 10i128.pow(9 - digits as u32);
    // truncation toward zero on the civil nanosecond-of-second (always >= 0 for civil times)
    ns - ns.rem_euclid(unit)
}

// ---------------------------------------------------------------------------

fn check_date(cx: &mut Ctx, day: i64) {
    let d = date_of_day(day);
    let case = || format!("date|{}", day);
    cx.eval(2);
    let r = guard(|| {
        let s = d.to_string();
        let back = s.parse::<Date>().ok().map(day_of_date);
        (s, back)
    });
    match r {
        Err(p) => cx.violation(&format!("Date print/parse/panic@{}", p.loc()), case, || "no panic".into(), || p.what.clone()),
        Ok((s, back)) => {
            if back != Some(day) {
                cx.violation("Date/print-parse", case, || format!("{}", day), || format!("{:?} from {:?}", back, s));
            }
            let mut i = 0;
            if read_date(s.as_bytes(), &mut i) != Some(day) || i != s.len() {
                cx.violation("Date/independent-reader", case, || format!("{:?}", cal::civil_from_days(day)), || s.clone());
            }
        }
    }
}

fn check_time(cx: &mut Ctx, nod: i64) {
    let t = time_of_nod(nod);
    let case = || format!("time|{}", nod);
    cx.eval(2);
    let r = guard(|| {
        let s = t.to_string();
        let back = s.parse::<Time>().ok().map(nod_of_time);
        let mut outs = Vec::new();
        for p in [0usize, 3, 6, 9] {
            let ps = format!("{:.*}", p, t);
            outs.push((p, ps.clone(), ps.parse::<Time>().ok().map(nod_of_time)));
        }
        (s, back, outs)
    });
    match r {
        Err(p) => cx.violation(&format!("Time print/parse/panic@{}", p.loc()), case, || "no panic".into(), || p.what.clone()),
        Ok((s, back, outs)) => {
            if back != Some(nod) {
                cx.violation("Time/print-parse", case, || format!("{}", nod), || format!("{:?} from {:?}", back, s));
            }
            let mut i = 0;
            if read_time(s.as_bytes(), &mut i).map(|x| x.0) != Some(nod) || i != s.len() {
                cx.violation("Time/independent-reader", case, || format!("{}", nod), || s.clone());
            }
            for (p, ps, b) in outs {
                let e = trunc_to(nod as i128, p) as i64;
                if b != Some(e) {
                    cx.violation("Time/print-with-precision-parse", case, || format!("{} at precision {}", e, p), || format!("{:?} from {:?}", b, ps));
                }
            }
        }
    }
}

fn check_datetime(cx: &mut Ctx, c: Civ, r: &mut Rng) {
    let Some(dt) = dt_of(c) else { return };
    let case = || format!("dt|{}|{}", c.day, c.nod);
    let prec = r.below(10) as usize;
    let sep = *r.pick(&[b'T', b' ', b't']);
    let lower = r.chance(1, 3);
    cx.eval(4);
    let res = guard(|| {
        let s = dt.to_string();
        let back = s.parse::<DateTime>().ok().map(civ_of);
        let ps = format!("{:.*}", prec, dt);
        let pback = ps.parse::<DateTime>().ok().map(civ_of);
        let printer = DateTimePrinter::new().precision(Some(prec as u8)).separator(sep).lowercase(lower);
        let os = printer.datetime_to_string(&dt);
        let oback = DateTimeParser::new().parse_datetime(&os).ok().map(civ_of);
        (s, back, ps, pback, os, oback)
    });
    match res {
        Err(p) => cx.violation(&format!("DateTime print/parse/panic@{}", p.loc()), case, || "no panic".into(), || p.what.clone()),
        Ok((s, back, ps, pback, os, oback)) => {
            if back != Some(c) {
                cx.violation("DateTime/print-parse", case, || format!("{:?}", c), || format!("{:?} from {:?}", back, s));
            }
            match read_datetime(&s, b"T") {
                Some(rd) if rd.civil_ns == c.to_ns() && rd.offset.is_none() => {}
                other => cx.violation("DateTime/independent-reader", case, || format!("{}", c.to_ns()), || format!("{:?} from {:?}", other, s)),
            }
            let e = Civ::from_ns(trunc_to(c.to_ns(), prec));
            if pback != Some(e) {
                cx.violation("DateTime/{:.N}-parse", case, || format!("{:?} at precision {}", e, prec), || format!("{:?} from {:?}", pback, ps));
            }
            if oback != Some(e) {
                cx.violation("DateTime/printer-options-parse", case, || format!("{:?} precision {} sep {:?} lower {}", e, prec, sep as char, lower), || format!("{:?} from {:?}", oback, os));
            }
            match read_datetime(&os, b"Tt ") {
                Some(rd) if rd.civil_ns == e.to_ns() && rd.frac_digits == prec => {}
                other => cx.violation("DateTime/printer-options-independent-reader", case, || format!("{} with {} fraction digits", e.to_ns(), prec), || format!("{:?} from {:?}", other, os)),
            }
        }
    }
}

fn check_timestamp(cx: &mut Ctx, t: i128, r: &mut Rng) {
    let Some(ts) = ts_from_ns(t) else { return };
    let case = || format!("ts|{}", t);
    let prec = r.below(10) as usize;
    let o = match r.below(4) {
        0 => 0,
        1 => r.range(-1559, 1559) as i32 * 60,
        2 => *r.pick(&[93540, -93540, 19800, -16200, 3600]),
        _ => r.range(-93599, 93599) as i32,
    };
    let sep = *r.pick(&[b'T', b' ', b't']);
    let lower = r.chance(1, 2);
    cx.eval(7);
    let res = guard(|| {
        let s = ts.to_string();
        let back = s.parse::<Timestamp>().ok();
        let ps = format!("{:.*}", prec, ts);
        let pback = ps.parse::<Timestamp>().ok().map(|x| x.as_nanosecond());
        let off = Offset::from_seconds(o).unwrap();
        let ws = ts.display_with_offset(off).to_string();
        let wback = ws.parse::<Timestamp>().ok().map(|x| x.as_nanosecond());
        // printer options: precision x separator x lowercase (lowercase also affects the Zulu designator)
        let printer = DateTimePrinter::new().precision(Some(prec as u8)).separator(sep).lowercase(lower);
        let os = printer.timestamp_to_string(&ts);
        let oback = DateTimeParser::new().parse_timestamp(&os).ok().map(|x| x.as_nanosecond());
        let os2 = printer.timestamp_with_offset_to_string(&ts, off);
        let oback2 = DateTimeParser::new().parse_timestamp(&os2).ok().map(|x| x.as_nanosecond());
        (s, back, ps, pback, ws, wback, os, oback, os2, oback2)
    });
    match res {
        Err(p) => cx.violation(&format!("Timestamp print/parse/panic@{}", p.loc()), case, || "no panic".into(), || p.what.clone()),
        Ok((s, back, ps, pback, ws, wback, os, oback, os2, oback2)) => {
            let civ_trunc0 = trunc_to(t, prec);
            if oback != Some(civ_trunc0) {
                cx.violation("Timestamp/printer-options-parse", case, || format!("{} precision {} sep {:?} lower {}", civ_trunc0, prec, sep as char, lower), || format!("{:?} from {:?}", oback, os));
            }
            match read_datetime(&os, b"Tt ") {
                Some(rd) if rd.offset == Some(None) && rd.civil_ns == civ_trunc0 && rd.frac_digits == prec => {}
                other => cx.violation("Timestamp/printer-options-independent-reader", case, || format!("{} Z with {} digits", civ_trunc0, prec), || format!("{:?} from {:?}", other, os)),
            }
            if o % 60 == 0 {
                let e = trunc_to(t + o as i128 * NS, prec) - o as i128 * NS;
                if oback2 != Some(e) {
                    cx.violation("Timestamp/printer-options-with-offset-parse", case, || format!("{}", e), || format!("{:?} from {:?}", oback2, os2));
                }
            } else if oback2.is_none() && t > MIN_NS + 60 * NS && t < MAX_NS - 60 * NS {
                cx.violation("Timestamp/printer-options-with-offset-rejected", case, || "parses".into(), || os2.clone());
            }
            if back != Some(ts) {
                cx.violation("Timestamp/print-parse", case, || format!("{}", t), || format!("{:?} from {:?}", back, s));
            }
            match read_datetime(&s, b"T") {
                Some(rd) if rd.offset == Some(None) && rd.civil_ns == t => {}
                other => cx.violation("Timestamp/independent-reader", case, || format!("{} Z", t), || format!("{:?} from {:?}", other, s)),
            }
            // reduced precision truncates the printed civil fraction
            let civ_trunc = trunc_to(t, prec);
            if pback != Some(civ_trunc) {
                cx.violation("Timestamp/{:.N}-parse", case, || format!("{} at precision {}", civ_trunc, prec), || format!("{:?} from {:?}", pback, ps));
            }
            // display_with_offset: offsets are printed to the minute (RFC 3339), so
            // only whole-minute offsets can carry the instant exactly
            if o % 60 == 0 {
                if wback != Some(t) {
                    cx.violation("Timestamp::display_with_offset/parse", case, || format!("{}", t), || format!("{:?} from {:?}", wback, ws));
                }
                match read_datetime(&ws, b"T") {
                    Some(rd) if rd.offset == Some(Some(o)) && rd.civil_ns - o as i128 * NS == t => {}
                    other => cx.violation("Timestamp::display_with_offset/independent-reader", case, || format!("{} at {}", t, o), || format!("{:?} from {:?}", other, ws)),
                }
            } else if read_datetime(&ws, b"T").is_none() {
                cx.violation("Timestamp::display_with_offset/not-rfc3339", case, || "well-formed".into(), || ws.clone());
            }
        }
    }
}

/// A zoned value in a named zone or a whole-minute fixed offset.
fn check_zoned(cx: &mut Ctx, zid: &str, tz: &TimeZone, model: Option<&crate::tzref::Zone>, t: i128, r: &mut Rng) {
    let Some(ts) = ts_from_ns(t) else { return };
    let zd = Zoned::new(ts, tz.clone());
    let case = || format!("zoned|{}|{}", zid, t);
    let prec = r.below(10) as usize;
    let zsep = *r.pick(&[b'T', b' ', b't']);
    let zlower = r.chance(1, 2);
    cx.eval(4);
    let res = guard(|| {
        let s = zd.to_string();
        let back = s.parse::<Zoned>().ok().map(|b| (b.timestamp().as_nanosecond(), b.offset().seconds(), civ_of(b.datetime()), b.time_zone().iana_name().map(|x| x.to_string()), b.time_zone() == zd.time_zone()));
        let printer = DateTimePrinter::new().precision(Some(prec as u8)).separator(zsep).lowercase(zlower);
        let ps = printer.zoned_to_string(&zd);
        let pback = ps.parse::<Zoned>().ok().map(|b| b.timestamp().as_nanosecond());
        (s, back, ps, pback)
    });
    let off = zd.offset().seconds();
    // Known finding D21: inside a fold whose two offsets print as the same
    // minute-rounded offset the printed text cannot tell the two passes apart.
    let round_min = |o: i32| (o as f64 / 60.0).round() as i64;
    let same_printed_offsets = match model {
        Some(m) => match crate::c04::model_classify(m, Civ::from_ns(t + off as i128 * NS)) {
            crate::c04::Class::Fold(b, a) => round_min(b) == round_min(a),
            _ => false,
        },
        None => false,
    };
    match res {
        Err(p) => cx.violation(&format!("Zoned print/parse/panic@{}", p.loc()), case, || "no panic".into(), || p.what.clone()),
        Ok((s, back, ps, pback)) => {
            let kind = if same_printed_offsets {
                "fold-offsets-equal-after-minute-rounding"
            } else if off % 60 != 0 {
                "sub-minute-offset"
            } else {
                "whole-minute-offset"
            };
            match &back {
                None => cx.violation(&format!("Zoned/printed-text-rejected[{}]", kind), case, || "parses".into(), || s.clone()),
                Some((bt, bo, bc, bname, same_tz)) => {
                    if *bt != t {
                        cx.violation(&format!("Zoned/print-parse-instant[{}]", kind), case, || format!("{}", t), || format!("{} from {:?}", bt, s));
                    } else {
                        if *bo != off || *bc != civ_of(zd.datetime()) {
                            cx.violation("Zoned/print-parse-fields", case, || format!("offset {} civil {:?}", off, zd.datetime()), || format!("offset {} civil {:?} from {:?}", bo, bc, s));
                        }
                        if bname.as_deref() != tz.iana_name() || !*same_tz {
                            cx.violation("Zoned/print-parse-time-zone", case, || format!("{:?}", tz.iana_name()), || format!("{:?} equal={} from {:?}", bname, same_tz, s));
                        }
                    }
                }
            }
            // independent reader
            match read_datetime(&s, b"T") {
                None => cx.violation("Zoned/not-rfc9557", case, || "date T time offset [zone]".into(), || s.clone()),
                Some(rd) => {
                    if rd.annotations.len() != 1 {
                        cx.violation("Zoned/annotation", case, || "one time zone annotation".into(), || s.clone());
                    }
                    match rd.offset {
                        Some(Some(po)) => {
                            if off % 60 == 0 {
                                if po != off || rd.civil_ns - po as i128 * NS != t {
                                    cx.violation("Zoned/independent-reader-instant", case, || format!("{} at {}", t, off), || format!("{:?} from {:?}", rd, s));
                                }
                            } else {
                                // printed rounded to the nearest minute
                                if (po - off).abs() > 30 || rd.civil_ns != civ_of(zd.datetime()).to_ns() {
                                    cx.violation("Zoned/independent-reader-civil", case, || format!("civil {:?} offset about {}", zd.datetime(), off), || format!("{:?} from {:?}", rd, s));
                                }
                            }
                        }
                        _ => cx.violation("Zoned/no-numeric-offset", case, || "numeric offset".into(), || s.clone()),
                    }
                    if let Some(m) = model {
                        // and the civil time is the one the zone data prescribes
                        let mo = m.utoff(t.div_euclid(NS) as i64);
                        if rd.civil_ns != t + mo as i128 * NS && !m.d10_window(t.div_euclid(NS) as i64) {
                            cx.violation("Zoned/printed-civil-time-differs-from-zone-data", case, || format!("{}", t + mo as i128 * NS), || format!("{} from {:?}", rd.civil_ns, s));
                        }
                    }
                }
            }
            // reduced precision: the instant is the one whose civil fraction is truncated
            let e = trunc_to(t + off as i128 * NS, prec) - off as i128 * NS;
            if pback != Some(e) {
                // inside a fold truncation can not move to another offset, so this holds there too
                cx.violation(&format!("Zoned/printer-precision-parse[{}]", kind), case, || format!("{} at precision {}", e, prec), || format!("{:?} from {:?}", pback, ps));
            }
        }
    }
}

pub fn run(cx: &mut Ctx) {
    if let Some(case) = cx.case.clone() {
        return replay(cx, &case);
    }
    let mut r = Rng::new(cx.shard_seed());
    // A. all dates
    // under Miri (memory-safety run of the printers: fmt/util.rs builds its strings with from_utf8_unchecked) the
    // enumerated spaces are strided and the zone part is skipped (no system database under Miri)
    let slow = cfg!(miri) || cx.opt("small").is_some();
    let mut idx = 0u64;
    if slow {
        let mut day = cal::MIN_DAY + cx.shard as i64 * 2_503;
        while day <= cal::MAX_DAY {
            check_date(cx, day);
            day += 40_009;
        }
    } else {
        for day in cal::MIN_DAY..=cal::MAX_DAY {
            idx += 1;
            if cx.mine(idx / 1024) {
                check_date(cx, day);
            }
        }
    }
    cx.count("dates", (cal::MAX_DAY - cal::MIN_DAY + 1) as u64 / cx.nshards / if slow { 40_009 / cx.nshards.max(1) } else { 1 });
    // B. every second of the day x nanosecond patterns
    let pats: [i64; 12] = [0, 1, 999_999_999, 500_000_000, 120_000_000, 123_456_789, 100, 1_000, 10, 999_999_000, 990_000_000, 1_000_000];
    for s in (0..86400i64).step_by(if slow { 997 } else { 1 }) {
        if !cx.mine(s as u64 / 16) && !slow {
            continue;
        }
        if slow && (s / 997) as u64 % cx.nshards != cx.shard % cx.nshards {
            continue;
        }
        for &p in &pats {
            check_time(cx, s * 1_000_000_000 + p);
        }
    }
    // C. datetimes and timestamps
    let n = if slow { cx.opt_u64("n", 150) } else { cx.budget(2_000_000, 80_000_000) };
    for i in 0..n {
        let mut c = gen::gen_civ(&mut r);
        // every fraction length
        let len = r.below(10) as u32;
        if len < 9 {
            let unit = 10i64.pow(9 - len);
            c.nod -= c.nod % unit;
        }
        check_datetime(cx, c, &mut r);
        let t = match r.below(6) {
            0 => MIN_NS + r.below(100_000_000_000) as i128,
            1 => MAX_NS - r.below(100_000_000_000) as i128,
            2 => r.range(-3_000_000_000, 3_000_000_000) as i128,
            _ => r.range128(MIN_NS, MAX_NS),
        };
        let t = if len < 9 { t - t.rem_euclid(10i128.pow(9 - len)) } else { t }.clamp(MIN_NS, MAX_NS);
        check_timestamp(cx, t, &mut r);
        if i % 4 == 0 {
            cx.nontrivial(hash_mix(c.to_ns() as u64, t as u64));
        }
    }
    for t in [MIN_NS, MAX_NS, 0, -1, 1] {
        check_timestamp(cx, t, &mut r);
    }
    if slow {
        // fixed-offset zoned values only
        for _ in 0..40 {
            // (not zero: TimeZone::fixed(0) is UTC, whose "[UTC]" annotation needs a time zone database to parse back)
            let o = r.range(60, 93599) as i32 * if r.chance(1, 2) { 1 } else { -1 };
            let tz = TimeZone::fixed(Offset::from_seconds(o - o % 60).unwrap());
            check_zoned(cx, &format!("fixed:{}", o - o % 60), &tz, None, r.range128(MIN_NS, MAX_NS), &mut r);
        }
        cx.sample(|| "reduced run (Miri): strided dates/times, seeded datetimes/timestamps, fixed-offset zoned values".to_string());
        return;
    }
    // D. zoned: named zones from the system database x instants around every transition
    let years = zones::probe_years(&mut Rng::new(cx.seed), cx.thorough);
    let sys = zones::system();
    let stride = if cx.thorough { 1 } else { cx.opt_u64("zone_stride", 2) };
    let mut nz = 0u64;
    for (i, (name, path)) in sys.iter().enumerate() {
        if !cx.mine(i as u64) || (i as u64 / cx.nshards) % stride != 0 {
            continue;
        }
        let Ok(bytes) = std::fs::read(path) else { continue };
        let Ok(model) = crate::tzref::parse_tzif(&bytes) else { continue };
        let model = crate::tzref::Zone::Tzif(model);
        let Ok(tz) = TimeZone::get(name) else {
            cx.note(format!("TimeZone::get({}) failed", name));
            continue;
        };
        nz += 1;
        let zid = format!("sys:{}", name);
        let probes = tzmon::probe_instants(&model, &years, &mut r, if cx.thorough { 1500 } else { 60 });
        let zh = hash64(zid.as_bytes());
        let step = (probes.len() / if cx.thorough { 40_000 } else { 3_000 }).max(1);
        for (k, &(s, ns)) in probes.iter().enumerate() {
            if k % step != 0 && ns != 999_999_999 {
                continue;
            }
            let t = s as i128 * NS + ns as i128;
            if t > MAX_NS || t < MIN_NS {
                continue;
            }
            check_zoned(cx, &zid, &tz, Some(&model), t, &mut r);
            cx.count("zoned_probes", 1);
            let sub = model.utoff(s) % 60 != 0;
            if sub {
                cx.count("zoned_probes_sub_minute_offset", 1);
            }
            if k % 8 == 0 {
                cx.nontrivial(hash_mix(zh, t as u64));
            }
        }
        // both passes through every fold, to the second, for sub-minute and whole-minute offsets
        let changes = model.changes(zones::TS_MIN, zones::TS_MAX, &years);
        for &c in changes.iter().rev().take(if cx.thorough { 400 } else { 40 }).chain(changes.iter().take(12)) {
            let (o1, o2) = (model.utoff(c - 1) as i64, model.utoff(c) as i64);
            if o2 < o1 {
                let w = o1 - o2;
                for d in [0i64, 1, w / 2, w - 1] {
                    for t in [(c - 1 - d) as i128 * NS + 999_999_999, (c + d) as i128 * NS] {
                        if t >= MIN_NS && t <= MAX_NS {
                            check_zoned(cx, &zid, &tz, Some(&model), t, &mut r);
                            cx.count("zoned_probes_inside_folds", 1);
                        }
                    }
                }
            }
        }
    }
    cx.count("named_zones", nz);
    // whole-minute fixed offsets
    let mut o = -93540i32 + 60 * cx.shard as i32;
    while o <= 93540 {
        let tz = TimeZone::fixed(Offset::from_seconds(o).unwrap());
        for _ in 0..3 {
            let t = r.range128(MIN_NS, MAX_NS);
            check_zoned(cx, &format!("fixed:{}", o), &tz, None, t, &mut r);
        }
        cx.count("fixed_offset_zones", 1);
        o += 60 * cx.nshards as i32;
    }
    cx.sample(|| "2024-11-03T01:30:00-05:00[America/New_York] (second pass of the fold) must re-parse to the same instant".to_string());
    cx.sample(|| format!("{} -> {:?}", Zoned::new(ts_from_ns(-2717650800 * NS - 1).unwrap(), TimeZone::get("America/New_York").unwrap_or(TimeZone::UTC)), "sub-minute LMT offset -4:56:02 printed as -04:56"));
}

fn replay(cx: &mut Ctx, case: &str) {
    let p: Vec<&str> = case.split('|').collect();
    let mut r = Rng::new(1);
    match p[0] {
        "date" => check_date(cx, p[1].parse().unwrap_or(0)),
        "time" => check_time(cx, p[1].parse().unwrap_or(0)),
        "dt" => {
            for s in 0..30 {
                check_datetime(cx, Civ { day: p[1].parse().unwrap_or(0), nod: p[2].parse().unwrap_or(0) }, &mut Rng::new(s));
            }
        }
        "ts" => {
            for s in 0..30 {
                check_timestamp(cx, p[1].parse().unwrap_or(0), &mut Rng::new(s));
            }
        }
        "zoned" => {
            let t: i128 = p[2].parse().unwrap_or(0);
            if let Some(name) = p[1].strip_prefix("sys:") {
                let path = format!("/usr/share/zoneinfo/{}", name);
                if let (Ok(bytes), Ok(tz)) = (std::fs::read(&path), TimeZone::get(name)) {
                    let model = crate::tzref::parse_tzif(&bytes).ok().map(crate::tzref::Zone::Tzif);
                    let zd = Zoned::new(ts_from_ns(t).unwrap(), tz.clone());
                    println!("printed: {}  reparsed: {:?}", zd, zd.to_string().parse::<Zoned>().map(|b| b.timestamp()));
                    for s in 0..10 {
                        check_zoned(cx, p[1], &tz, model.as_ref(), t, &mut Rng::new(s));
                    }
                }
            } else if let Some(o) = p[1].strip_prefix("fixed:") {
                let tz = TimeZone::fixed(Offset::from_seconds(o.parse().unwrap_or(0)).unwrap());
                check_zoned(cx, p[1], &tz, None, t, &mut r);
            }
        }
        _ => cx.inconclusive("bad case"),
    }
    println!("replay {}: evaluations={} violations={}", case, cx.evals, cx.viol_total);
}

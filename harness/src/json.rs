//! Minimal JSON writer (no parser is needed: replay cases are passed as
//! strings on the command line by the driver).

use std::collections::BTreeMap;
use std::fmt::Write;

#[derive(Clone, Debug)]
pub enum J {
    Null,
    Bool(bool),
    Int(i128),
    Num(f64),
    Str(String),
    Arr(Vec<J>),
    Obj(BTreeMap<String, J>),
}

impl J {
    pub fn obj() -> J {
        J::Obj(BTreeMap::new())
    }
    pub fn set(&mut self, k: &str, v: J) -> &mut J {
        if let J::Obj(m) = self {
            m.insert(k.to_string(), v);
        }
        self
    }
    pub fn s(x: impl Into<String>) -> J {
        J::Str(x.into())
    }
    pub fn i(x: impl Into<i128>) -> J {
        J::Int(x.into())
    }
    pub fn u(x: u64) -> J {
        J::Int(x as i128)
    }
    pub fn write(&self, out: &mut String) {
        match self {
            J::Null => out.push_str("null"),
            J::Bool(b) => out.push_str(if *b { "true" } else { "false" }),
            J::Int(i) => {
                let _ = write!(out, "{}", i);
            }
            J::Num(f) => {
                if f.is_finite() {
                    let _ = write!(out, "{}", f);
                } else {
                    out.push_str("null");
                }
            }
            J::Str(s) => esc(s, out),
            J::Arr(a) => {
                out.push('[');
                for (i, x) in a.iter().enumerate() {
                    if i > 0 {
                        out.push(',');
                    }
                    x.write(out);
                }
                out.push(']');
            }
            J::Obj(m) => {
                out.push('{');
                for (i, (k, v)) in m.iter().enumerate() {
                    if i > 0 {
                        out.push(',');
                    }
                    esc(k, out);
                    out.push(':');
                    v.write(out);
                }
                out.push('}');
            }
        }
    }
    pub fn to_string(&self) -> String {
        let mut s = String::new();
        self.write(&mut s);
        s
    }
}

fn esc(s: &str, out: &mut String) {
    out.push('"');
    for c in s.chars() {
        match c {
            '"' => out.push_str("\\\""),
            '\\' => out.push_str("\\\\"),
            '\n' => out.push_str("\\n"),
            '\r' => out.push_str("\\r"),
            '\t' => out.push_str("\\t"),
            c if (c as u32) < 0x20 => {
                let _ = write!(out, "\\u{:04x}", c as u32);
            }
            c => out.push(c),
        }
    }
    out.push('"');
}

/// Hex encoding helpers for byte-string replay cases.
pub fn hex(b: &[u8]) -> String {
    let mut s = String::with_capacity(b.len() * 2);
    for x in b {
        let _ = write!(s, "{:02x}", x);
    }
    s
}

pub fn unhex(s: &str) -> Vec<u8> {
    let b = s.as_bytes();
    let mut out = Vec::with_capacity(b.len() / 2);
    let v = |c: u8| -> u8 {
        match c {
            b'0'..=b'9' => c - b'0',
            b'a'..=b'f' => c - b'a' + 10,
            b'A'..=b'F' => c - b'A' + 10,
            _ => 0,
        }
    };
    let mut i = 0;
    while i + 1 < b.len() {
        out.push(v(b[i]) << 4 | v(b[i + 1]));
        i += 2;
    }
    out
}

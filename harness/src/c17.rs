//! C17 — parsers are total. Hostile inputs (random bytes, grammar-aware
//! mutations of text harvested from jiff's own printers, structure-aware
//! mutations of real and generated TZif data, mutated concatenated tzdata
//! containers) are fed to every parser entry point. Monitors: the panic hook,
//! range predicates and print->reparse stability on every Ok value, a lookup
//! battery on every accepted time zone, and thread CPU time against input
//! size.

use crate::arith::MSpan;
use crate::c05::V;
use crate::cal;
use crate::gen;
use crate::rep::{guard, Ctx};
use crate::rng::{hash64, hash_mix, Rng};
use crate::zones;
use jiff::civil::{Date, DateTime, Time};
use jiff::fmt::{friendly, rfc2822, strtime, temporal};
use jiff::tz::{TimeZone, TimeZoneDatabase};
use jiff::{SignedDuration, Span, Timestamp, Zoned};

fn hex(b: &[u8]) -> String {
    let mut s = String::with_capacity(b.len() * 2);
    for x in b {
        s.push_str(&format!("{:02x}", x));
    }
    s
}
fn unhex(s: &str) -> Vec<u8> {
    (0..s.len() / 2).filter_map(|i| u8::from_str_radix(&s[2 * i..2 * i + 2], 16).ok()).collect()
}

// ---------------------------------------------------------------------------
// sanity of Ok values

fn span_reparse_ok(s: &Span) -> Result<(), String> {
    V::Span(*s).in_range()?;
    let text = s.to_string();
    let back: Span = text.parse().map_err(|e| format!("ISO form {:?} of a parsed span is rejected: {}", text, e))?;
    let (a, b) = (MSpan::from_jiff(s), MSpan::from_jiff(&back));
    let small = |m: &MSpan| m.u[0] as i128 + m.u[1] as i128 * 1_000 + m.u[2] as i128 * 1_000_000 + m.u[3] as i128 * 1_000_000_000;
    if a.u[4..] != b.u[4..] || small(&a) != small(&b) {
        return Err(format!("span {:?} re-parses from {:?} as {:?}", a.u, text, b.u));
    }
    let ftext = format!("{:#}", s);
    let fback: Span = ftext.parse().map_err(|e| format!("friendly form {:?} of a parsed span is rejected: {}", ftext, e))?;
    if MSpan::from_jiff(&fback).u != a.u {
        return Err(format!("span {:?} re-parses from {:?} as {:?}", a.u, ftext, MSpan::from_jiff(&fback).u));
    }
    Ok(())
}

fn sdur_reparse_ok(d: &SignedDuration) -> Result<(), String> {
    V::Sd(*d).in_range()?;
    let text = d.to_string();
    match text.parse::<SignedDuration>() {
        Ok(b) if b == *d => Ok(()),
        other => Err(format!("duration {:?} re-parses from {:?} as {:?}", d, text, other.map_err(|e| e.to_string()))),
    }
}

fn zoned_ok(z: &Zoned) -> Result<(), String> {
    V::Zoned(z.clone()).in_range()?;
    let text = z.to_string();
    let back: Zoned = text.parse().map_err(|e| format!("printed form {:?} of a parsed Zoned is rejected: {}", text, e))?;
    // the time zone must come back under the same name with the same offset (TimeZone equality is identity-like:
    // "UTC" found through a case-variant name is a TZif zone, not TimeZone::UTC; C18 owns loader equivalence)
    if back.datetime() != z.datetime() || back.time_zone().iana_name() != z.time_zone().iana_name() || back.offset() != z.offset() {
        return Err(format!("zoned {:?} re-parses as {}", text, back));
    }
    // (instants may legitimately differ when the offset has seconds: offsets print to the minute; C09 owns that)
    if z.offset().seconds() % 60 == 0 && back.timestamp() != z.timestamp() {
        return Err(format!("zoned {:?} re-parses to another instant {}", text, back.timestamp()));
    }
    Ok(())
}

fn ts_ok(t: &Timestamp) -> Result<(), String> {
    V::Ts(*t).in_range()?;
    let text = t.to_string();
    match text.parse::<Timestamp>() {
        Ok(b) if b == *t => Ok(()),
        other => Err(format!("timestamp re-parses from {:?} as {:?}", text, other.map_err(|e| e.to_string()))),
    }
}

fn dt_ok(d: &DateTime) -> Result<(), String> {
    V::Dt(*d).in_range()?;
    let text = d.to_string();
    match text.parse::<DateTime>() {
        Ok(b) if b == *d => Ok(()),
        other => Err(format!("datetime re-parses from {:?} as {:?}", text, other.map_err(|e| e.to_string()))),
    }
}

fn date_ok(d: &Date) -> Result<(), String> {
    V::Date(*d).in_range()?;
    let text = d.to_string();
    match text.parse::<Date>() {
        Ok(b) if b == *d => Ok(()),
        other => Err(format!("date re-parses from {:?} as {:?}", text, other.map_err(|e| e.to_string()))),
    }
}

fn time_ok(t: &Time) -> Result<(), String> {
    V::Time(*t).in_range()?;
    let text = t.to_string();
    match text.parse::<Time>() {
        Ok(b) if b == *t => Ok(()),
        other => Err(format!("time re-parses from {:?} as {:?}", text, other.map_err(|e| e.to_string()))),
    }
}

/// Every lookup on an accepted zone must answer without panicking and the
/// iterators must make progress. Returns the number of lookups made.
pub fn battery(tz: &TimeZone, r: &mut Rng) -> Result<u64, String> {
    battery_capped(tz, r, 1500)
}

/// `cap`: steps after which an iterator is cut off. With `cap` above the number of transitions any zone can have
/// (explicit transitions + 2 per year of the rule) running into the cap means the iterator does not terminate.
pub fn battery_capped(tz: &TimeZone, r: &mut Rng, cap: usize) -> Result<u64, String> {
    let full = cap > 40_000;
    let mut n = 0u64;
    let mut probes: Vec<Timestamp> = vec![Timestamp::MIN, Timestamp::MAX, Timestamp::UNIX_EPOCH];
    for _ in 0..6 {
        probes.push(Timestamp::new(r.range(zones::TS_MIN, zones::TS_MAX), r.range(0, 999_999_999) as i32).unwrap());
    }
    // both iterators with a step cap; progress must be strict
    let mut prev: Option<Timestamp> = None;
    for (i, tr) in tz.following(Timestamp::MIN).enumerate() {
        n += 1;
        prev = Some(tr.timestamp());
        V::Ts(tr.timestamp()).in_range().map_err(|e| format!("following() yields a transition outside the Timestamp range: {}", e))?;
        V::Off(tr.offset()).in_range().map_err(|e| format!("following() yields an offset outside the Offset range: {}", e))?;
        let _ = (tr.offset(), tr.abbreviation().len(), tr.dst());
        if i < 24 || i % 97 == 0 {
            probes.push(tr.timestamp());
            if let Ok(t) = tr.timestamp().checked_sub(SignedDuration::from_nanos(1)) {
                probes.push(t);
            }
        }
        if i >= cap {
            if full {
                return Err(format!("following() does not terminate: still yielding after {} steps (last {:?})", cap, prev));
            }
            break;
        }
    }
    prev = None;
    for (i, tr) in tz.preceding(Timestamp::MAX).enumerate() {
        n += 1;
        prev = Some(tr.timestamp());
        V::Ts(tr.timestamp()).in_range().map_err(|e| format!("preceding() yields a transition outside the Timestamp range: {}", e))?;
        if i >= cap {
            if full {
                return Err(format!("preceding() does not terminate: still yielding after {} steps (last {:?})", cap, prev));
            }
            break;
        }
    }
    for start in probes.iter().take(9) {
        n += 2;
        let _ = tz.following(*start).take(3).count();
        let _ = tz.preceding(*start).take(3).count();
    }
    for t in &probes {
        n += 1;
        let info = tz.to_offset_info(*t);
        let off = info.offset();
        V::Off(off).in_range().map_err(|e| format!("to_offset_info({}): {}", t, e))?;
        let _ = (info.dst(), info.abbreviation().len());
        if tz.to_offset(*t) != off {
            return Err(format!("to_offset and to_offset_info disagree at {}", t));
        }
        // civil probes around the instant
        let dt = off.to_datetime(*t);
        for d in [dt, dt.saturating_add(SignedDuration::from_secs(1800)), dt.saturating_sub(SignedDuration::from_secs(3 * 3600))] {
            n += 1;
            let a = tz.to_ambiguous_zoned(d);
            let _ = a.is_ambiguous();
            let _ = a.clone().compatible().map(|z| z.timestamp().as_second());
            let _ = a.clone().earlier().map(|z| z.timestamp().as_second());
            let _ = a.clone().later().map(|z| z.timestamp().as_second());
            let _ = a.unambiguous().is_ok();
            let _ = tz.to_ambiguous_timestamp(d).compatible();
        }
        let z = Zoned::new(*t, tz.clone());
        let s = z.to_string();
        let _ = strtime::format("%Y-%m-%d %H:%M:%S %Z %z %Q", &z).is_ok();
        if s.is_empty() {
            return Err("empty Zoned display".into());
        }
    }
    for d in [DateTime::MIN, DateTime::MAX, DateTime::constant(1970, 1, 1, 0, 0, 0, 0), DateTime::constant(2024, 3, 10, 2, 30, 0, 0)] {
        n += 1;
        let _ = tz.to_ambiguous_zoned(d).compatible().map(|z| z.to_string());
    }
    let c = tz.clone();
    if c != *tz {
        return Err("a clone compares unequal".into());
    }
    let _ = (tz.iana_name().map(|s| s.len()), tz.is_unknown(), tz.to_fixed_offset().is_ok());
    Ok(n)
}

// ---------------------------------------------------------------------------
// text targets

type TargetFn = fn(&[u8], &mut Rng) -> Option<Result<(), String>>; // None = Err (rejected), Some(Ok) = accepted and sane

fn s(b: &[u8]) -> Option<&str> {
    std::str::from_utf8(b).ok()
}

const STRP_FORMATS: [&str; 24] = [
    "%Y-%m-%d %H:%M:%S%.f %z",
    "%Y-%m-%dT%H:%M:%S%.f%:z[%Q]",
    "%a, %d %b %Y %T %z",
    "%A %B %e %Y %I:%M %p",
    "%G-W%V-%u",
    "%Y-%j",
    "%s",
    "%D %R",
    "%F %T",
    "%y%m%d%H%M%S",
    "%U %w %Y",
    "%W %a %Y %k:%M",
    "%C%y %h %d %l %P",
    "%Q %Y-%m-%d %H:%M",
    "%:Q %F %T%.3f",
    "%n%t%%%Y",
    "%5Y-%3m-%_3d",
    "%-d/%-m/%Y %-I%p",
    "%f %S",
    "%H:%M:%S.%9f",
    "%Z",
    "%c",
    "%x %X",
    "%+",
];

fn strp_all(fmt: &[u8], input: &[u8]) -> Option<Result<(), String>> {
    let tm = strtime::parse(fmt, input).ok()?;
    let mut res = Ok(());
    let mut note = |r: Result<(), String>| {
        if res.is_ok() {
            if let Err(e) = r {
                res = Err(e);
            }
        }
    };
    if let Ok(z) = tm.to_zoned() {
        note(V::Zoned(z).in_range());
    }
    if let Ok(t) = tm.to_timestamp() {
        note(V::Ts(t).in_range());
    }
    if let Ok(d) = tm.to_datetime() {
        note(V::Dt(d).in_range());
    }
    if let Ok(d) = tm.to_date() {
        note(V::Date(d).in_range());
    }
    if let Ok(t) = tm.to_time() {
        note(V::Time(t).in_range());
    }
    if let Some(o) = tm.offset() {
        note(V::Off(o).in_range());
    }
    let _ = tm.to_string(fmt);
    let _ = (tm.year(), tm.month(), tm.day(), tm.day_of_year(), tm.iso_week_year(), tm.iso_week(), tm.sunday_based_week(), tm.monday_based_week(), tm.hour(), tm.minute(), tm.second(), tm.subsec_nanosecond(), tm.weekday(), tm.meridiem());
    Some(res)
}

const TARGETS: [(&str, TargetFn); 26] = [
    ("Timestamp::from_str", |b, _| s(b)?.parse::<Timestamp>().ok().map(|t| ts_ok(&t))),
    ("Zoned::from_str", |b, _| s(b)?.parse::<Zoned>().ok().map(|z| zoned_ok(&z))),
    ("DateTime::from_str", |b, _| s(b)?.parse::<DateTime>().ok().map(|d| dt_ok(&d))),
    ("Date::from_str", |b, _| s(b)?.parse::<Date>().ok().map(|d| date_ok(&d))),
    ("Time::from_str", |b, _| s(b)?.parse::<Time>().ok().map(|t| time_ok(&t))),
    ("Span::from_str", |b, _| s(b)?.parse::<Span>().ok().map(|x| span_reparse_ok(&x))),
    ("SignedDuration::from_str", |b, _| s(b)?.parse::<SignedDuration>().ok().map(|x| sdur_reparse_ok(&x))),
    ("temporal::parse_zoned", |b, _| temporal::DateTimeParser::new().parse_zoned(b).ok().map(|z| zoned_ok(&z))),
    ("temporal::parse_zoned(always-offset)", |b, _| temporal::DateTimeParser::new().offset_conflict(jiff::tz::OffsetConflict::AlwaysOffset).disambiguation(jiff::tz::Disambiguation::Later).parse_zoned(b).ok().map(|z| V::Zoned(z).in_range())),
    ("temporal::parse_timestamp", |b, _| temporal::DateTimeParser::new().parse_timestamp(b).ok().map(|t| ts_ok(&t))),
    ("temporal::parse_datetime", |b, _| temporal::DateTimeParser::new().parse_datetime(b).ok().map(|d| dt_ok(&d))),
    ("temporal::parse_date", |b, _| temporal::DateTimeParser::new().parse_date(b).ok().map(|d| date_ok(&d))),
    ("temporal::parse_time", |b, _| temporal::DateTimeParser::new().parse_time(b).ok().map(|t| time_ok(&t))),
    ("temporal::parse_time_zone", |b, r| temporal::DateTimeParser::new().parse_time_zone(b).ok().map(|tz| battery(&tz, r).map(|_| ()))),
    ("temporal::Pieces::parse", |b, _| {
        temporal::Pieces::parse(b).ok().map(|p| {
            V::Date(p.date()).in_range()?;
            if let Some(t) = p.time() {
                V::Time(t).in_range()?;
            }
            if let Some(o) = p.to_numeric_offset() {
                V::Off(o).in_range()?;
            }
            let _ = p.to_time_zone().map(|tz| tz.map(|tz| tz.iana_name().map(|n| n.len())));
            let text = p.to_string();
            // an offset with seconds prints rounded to the minute: the re-parsed pieces then differ in the offset only
            let sub_minute = p.to_numeric_offset().map_or(false, |o| o.seconds() % 60 != 0);
            match temporal::Pieces::parse(&text) {
                Ok(q) if q == p => Ok(()),
                Ok(q) if sub_minute && q.date() == p.date() && q.time() == p.time() && q.time_zone_annotation() == p.time_zone_annotation() => Ok(()),
                other => Err(format!("Pieces re-parse from {:?}: {:?}", text, other.map(|q| q.to_string()).map_err(|e| e.to_string()))),
            }
        })
    }),
    ("temporal::parse_span", |b, _| temporal::SpanParser::new().parse_span(b).ok().map(|x| span_reparse_ok(&x))),
    ("temporal::parse_duration", |b, _| temporal::SpanParser::new().parse_duration(b).ok().map(|x| sdur_reparse_ok(&x))),
    ("friendly::parse_span", |b, _| friendly::SpanParser::new().parse_span(b).ok().map(|x| span_reparse_ok(&x))),
    ("friendly::parse_duration", |b, _| friendly::SpanParser::new().parse_duration(b).ok().map(|x| sdur_reparse_ok(&x))),
    ("rfc2822::parse_zoned", |b, _| {
        rfc2822::DateTimeParser::new().parse_zoned(b).ok().map(|z| {
            V::Zoned(z.clone()).in_range()?;
            if z.year() >= 0 {
                let text = rfc2822::to_string(&z).map_err(|e| format!("parsed RFC 2822 value cannot be printed: {}", e))?;
                let back = rfc2822::parse(&text).map_err(|e| format!("{:?} rejected: {}", text, e))?;
                if back.timestamp().as_second() != z.timestamp().as_second() || back.offset() != z.offset() {
                    return Err(format!("{:?} re-parses as {}", text, back));
                }
            }
            Ok(())
        })
    }),
    ("rfc2822::parse_zoned(relaxed)", |b, _| rfc2822::DateTimeParser::new().relaxed_weekday(true).parse_zoned(b).ok().map(|z| V::Zoned(z).in_range())),
    ("rfc2822::parse_timestamp", |b, _| rfc2822::DateTimeParser::new().parse_timestamp(b).ok().map(|t| V::Ts(t).in_range())),
    ("strtime::parse(fixed formats)", |b, _| {
        let f = STRP_FORMATS[(hash64(b) % STRP_FORMATS.len() as u64) as usize];
        strp_all(f.as_bytes(), b)
    }),
    ("strtime::format(arbitrary format)", |b, _| {
        // the input is the *format string*
        let z = Zoned::new(Timestamp::new(1_720_000_000 + (hash64(b) % 1000) as i64, 123_456_789).unwrap(), TimeZone::fixed(jiff::tz::offset(-4)));
        let a = strtime::format(b, &z).is_ok();
        let e = strtime::BrokenDownTime::default().to_string(b).is_ok();
        let d = strtime::format(b, Date::constant(-9999, 1, 1)).is_ok();
        if a || e || d {
            Some(Ok(()))
        } else {
            None
        }
    }),
    ("TimeZone::posix", |b, r| TimeZone::posix(s(b)?).ok().map(|tz| posix_ok(&tz, r))),
    ("shared(jiff-static)::PosixTimeZone::parse", |b, _| {
        let st = crate::shared::PosixTimeZone::parse(b).is_ok();
        let main = s(b).map(|x| TimeZone::posix(x).is_ok());
        match main {
            Some(m) if m != st => Some(Err(format!("the jiff-static copy of the POSIX TZ parser returns Ok={} where jiff returns Ok={}", st, m))),
            _ if st => Some(Ok(())),
            _ => None,
        }
    }),
];

fn posix_ok(tz: &TimeZone, r: &mut Rng) -> Result<(), String> {
    battery(tz, r)?;
    let text = temporal::DateTimePrinter::new().time_zone_to_string(tz).map_err(|e| format!("accepted POSIX zone cannot be printed: {}", e))?;
    let back = TimeZone::posix(&text).map_err(|e| format!("printed POSIX zone {:?} is rejected: {}", text, e))?;
    let text2 = temporal::DateTimePrinter::new().time_zone_to_string(&back).map_err(|e| e.to_string())?;
    if text != text2 {
        return Err(format!("POSIX zone print->parse->print is not stable: {:?} then {:?}", text, text2));
    }
    Ok(())
}

fn run_text(cx: &mut Ctx, input: &[u8], r: &mut Rng, only: Option<usize>) -> bool {
    let mut any_ok = false;
    for (i, (name, f)) in TARGETS.iter().enumerate() {
        if only.map_or(false, |o| o != i) {
            continue;
        }
        cx.eval(1);
        let mut rr = Rng::new(hash64(input));
        let _ = &r;
        match guard(|| f(input, &mut rr)) {
            Err(p) => cx.violation(&format!("{}/panic@{}", name, p.loc()), || format!("text|{}|{}", i, hex(input)), || "Ok or Err".into(), || format!("{} on {:?}", p.what, String::from_utf8_lossy(&input[..input.len().min(120)]))),
            Ok(None) => {}
            Ok(Some(Ok(()))) => {
                any_ok = true;
                *cx.counters.entry(format!("accepted[{}]", name)).or_insert(0) += 1;
            }
            Ok(Some(Err(e))) => {
                any_ok = true;
                let class = format!("{}/accepted-value-not-sane: {}", name, e.split(|c: char| c.is_ascii_digit() || c == '"').next().unwrap_or("").trim());
                cx.violation(&class, || format!("text|{}|{}", i, hex(input)), || "in range and print->reparse stable".into(), || format!("{} (input {:?})", e, String::from_utf8_lossy(&input[..input.len().min(120)])));
            }
        }
    }
    any_ok
}

// ---------------------------------------------------------------------------
// corpus and mutation

fn corpus(r: &mut Rng) -> Vec<Vec<u8>> {
    let mut out: Vec<String> = Vec::new();
    let named: Vec<TimeZone> = ["America/New_York", "Europe/London", "Asia/Kolkata", "Australia/Lord_Howe", "Africa/Monrovia", "Pacific/Apia", "UTC", "America/St_Johns"].iter().filter_map(|n| TimeZone::get(n).ok()).collect();
    for i in 0..60 {
        let t = match i % 4 {
            0 => r.range128(crate::c02::MIN_NS, crate::c02::MAX_NS),
            1 => r.range(-4_000_000_000, 4_000_000_000) as i128 * 1_000_000_000 + r.range(0, 999_999_999) as i128,
            2 => crate::c02::MAX_NS - r.below(1_000_000_000_000) as i128,
            _ => crate::c02::MIN_NS + r.below(1_000_000_000_000) as i128,
        };
        let Some(ts) = crate::c02::ts_from_ns(t) else { continue };
        out.push(ts.to_string());
        out.push(format!("{:.3}", ts));
        let off = jiff::tz::Offset::from_seconds(r.range(-93599, 93599) as i32).unwrap();
        out.push(ts.display_with_offset(off).to_string());
        let tz = if i % 3 == 0 || named.is_empty() { TimeZone::fixed(off) } else { r.pick(&named).clone() };
        let z = Zoned::new(ts, tz);
        out.push(z.to_string());
        out.push(z.datetime().to_string());
        out.push(z.date().to_string());
        out.push(z.time().to_string());
        out.push(temporal::DateTimePrinter::new().separator(b' ').lowercase(true).zoned_to_string(&z));
        if z.year() >= 0 {
            if let Ok(x) = rfc2822::to_string(&z) {
                out.push(x);
            }
            if let Ok(x) = rfc2822::DateTimePrinter::new().timestamp_to_rfc9110_string(&ts) {
                out.push(x);
            }
        }
        for f in STRP_FORMATS.iter().skip(i % 5).step_by(5) {
            if let Ok(x) = strtime::format(f, &z) {
                out.push(x);
            }
        }
    }
    for _ in 0..40 {
        let m = gen::gen_span(r, &gen::ALL_UNITS, false);
        if let Ok(sp) = m.to_jiff() {
            out.push(sp.to_string());
            out.push(format!("{:#}", sp));
            let cfg = crate::c15::Cfg::from_index(r.below(1152) as u32);
            out.push(cfg.printer().span_to_string(&sp));
        }
        let d = gen::sdur_of_ns(gen::gen_sdur_ns(r));
        out.push(d.to_string());
        out.push(format!("{:#}", d));
        let cfg = crate::c15::Cfg::from_index(r.below(1152) as u32);
        out.push(cfg.printer().duration_to_string(&d));
    }
    for x in ["Z", "+05:30", "-08", "+00:00:01", "-25:59:59", "2024-07-04T12:00[u-ca=gregory]", "2024-07-04T12:00[!America/New_York][u-ca=iso8601]", "2024-07-04T12:00:00+01[+01:00]", "20240704T120000Z", "2024-W27-4", "2024-186", "T12:30", "12:30:60", "-009999-01-01", "+009999-12-31T23:59:59.999999999", "Thu, 4 Jul 2024 12:00 (comment (nested)) +0000", "4 Jul 24 12:00 EDT", " Thu,\r\n 4 Jul 2024 12:00:00 -0000", "10 Jan 2024 05:34 +0000 (w\\(a\\)t \\\\ x)", "Wed, 10 Jan 2024 05:34:45 -0500 (quoted \\) pair) (two)", "P1W", "PT0.000000001S", "-P1Y1M1W1DT1H1M1.1S", "1 year, 2 months ago", "+ 2h30m", "1:02:03.5", "3 weeks 02:03:04", "1.5 hours", "5 µs", "5 μs"] {
        out.push(x.to_string());
    }
    for p in zones::FIXED_POSIX {
        out.push(p.to_string());
    }
    for _ in 0..20 {
        out.push(zones::gen_posix(r));
    }
    out.push("<AAAAAAAAAAAAAAAAAAAAAAAAAAAAAA>+24:59:59<BBBBBBBBBBBBBBBBBBBBBBBBBBBBBB>,J365/167:59:59,M12.5.6/-167:59:59".into());
    for f in STRP_FORMATS {
        out.push(f.to_string());
    }
    let mut v: Vec<Vec<u8>> = out.into_iter().map(|x| x.into_bytes()).collect();
    v.sort();
    v.dedup();
    v
}

const INTERESTING: [&[u8]; 42] = [b"\\", b"(\\", b"", b"-", b"+", b"\xe2\x88\x92", b":", b".", b",", b"T", b"t", b" ", b"Z", b"z", b"[", b"]", b"!", b"=", b"/", b"%", b"<", b">", b"W", b"P", b"\0", b"\xff", b"\xc3", b"\xf0\x9f\x95\x90", b"9", b"0", b"60", b"24", b"61", b"99999999999999999999", b"18446744073709551616", b"9223372036854775808", b"-9223372036854775808", b"2147483648", b"\n", b"\r\n", b"(", b")"];

fn mutate(base: &[u8], other: &[u8], r: &mut Rng) -> Vec<u8> {
    let mut v = base.to_vec();
    let rounds = 1 + r.below(3);
    for _ in 0..rounds {
        let n = v.len();
        let pos = if n == 0 { 0 } else { r.below(n as u64 + 1) as usize };
        match r.below(16) {
            0 => v.truncate(pos),
            1 if n > 0 => {
                v.remove(pos.min(n - 1));
            }
            2 => {
                let t = *r.pick(&INTERESTING);
                v.splice(pos..pos, t.iter().copied());
            }
            3 if n > 0 => {
                // digit overflow: lengthen a digit run
                if let Some(i) = (0..n).map(|k| (pos + k) % n).find(|&k| v[k].is_ascii_digit()) {
                    let len = *r.pick(&[1usize, 2, 9, 10, 19, 20, 40]);
                    let d = *r.pick(&[b'9', b'0', b'1']);
                    v.splice(i..i, std::iter::repeat(d).take(len));
                }
            }
            4 if n > 0 => {
                let i = pos.min(n - 1);
                v[i] = match v[i] {
                    b'+' => b'-',
                    b'-' => b'+',
                    b':' => *r.pick(&[b'.', b'-', b' ']),
                    b'.' => b',',
                    b',' => b'.',
                    b'T' => b' ',
                    b' ' => b'T',
                    c if c.is_ascii_alphabetic() => c ^ 0x20,
                    c if c.is_ascii_digit() => b'0' + r.below(10) as u8,
                    _ => r.below(256) as u8,
                };
            }
            5 if n > 0 => {
                // duplicate a slice
                let a = pos.min(n - 1);
                let b = (a + 1 + r.below(8) as usize).min(n);
                let piece = v[a..b].to_vec();
                let reps = *r.pick(&[1usize, 1, 2, 5, 50]);
                for _ in 0..reps {
                    v.splice(b..b, piece.iter().copied());
                }
            }
            6 if n > 0 => v[pos.min(n - 1)] = r.below(256) as u8,
            7 => {
                // splice with another corpus entry
                let cut = r.below(other.len() as u64 + 1) as usize;
                v.truncate(pos);
                v.extend_from_slice(&other[cut..]);
            }
            8 => {
                // a long run
                let ch = *r.pick(&[b'9', b' ', b'a', b'[', b'-', b'0', b'%', b'(', b':']);
                let len = *r.pick(&[64usize, 300, 1000, 5000]);
                v.splice(pos..pos, std::iter::repeat(ch).take(len));
            }
            9 if n > 1 => {
                let a = r.below(n as u64) as usize;
                v.swap(a, pos.min(n - 1));
            }
            10 if n > 0 => {
                // case flip of the whole text
                for c in v.iter_mut() {
                    if c.is_ascii_alphabetic() && r.chance(1, 2) {
                        *c ^= 0x20;
                    }
                }
            }
            11 if n > 0 => {
                // replace a number by a boundary value
                if let Some(i) = (0..n).map(|k| (pos + k) % n).find(|&k| v[k].is_ascii_digit()) {
                    let mut j = i;
                    while j < v.len() && v[j].is_ascii_digit() {
                        j += 1;
                    }
                    let t = *r.pick(&[&b"0"[..], b"00", b"60", b"61", b"24", b"25", b"31", b"32", b"366", b"367", b"53", b"54", b"9999", b"10000", b"999999999", b"1000000000", b"9223372036854775807", b"9223372036854775808", b"631107417600", b"175307616", b"7304484"]);
                    v.splice(i..j, t.iter().copied());
                }
            }
            12 => v.insert(pos, *r.pick(&[0x80u8, 0xff, 0xc0, 0xe2, 0xf0, 0x00, 0x7f])),
            13 => {
                v.insert(0, b' ');
                v.push(b' ');
            }
            14 if n > 0 => {
                // drop everything but a window
                let b = (pos + 1 + r.below(12) as usize).min(n);
                v = v[pos.min(n - 1)..b].to_vec();
            }
            _ => {
                let k = r.below(4) as usize;
                v.extend(std::iter::repeat(*r.pick(&[b'0', b'Z', b']', b'S', b's'])).take(k));
            }
        }
        if v.len() > 20_000 {
            v.truncate(20_000);
        }
    }
    v
}

fn gen_format(r: &mut Rng) -> Vec<u8> {
    let specs = b"aAbBcCdDeFfGghHIjklmMnNpPQrRsStTuUVwWxXyYzZ%+:.#^_-0123456789 /,";
    let mut v = Vec::new();
    for _ in 0..r.range(1, 9) {
        match r.below(6) {
            0 => v.push(*r.pick(&specs[..])),
            1 => v.extend_from_slice(*r.pick(&[&b" "[..], b"-", b":", b"T", b"/", b", "])),
            _ => {
                v.push(b'%');
                if r.chance(1, 4) {
                    v.push(*r.pick(&b"_-0^#:."[..]));
                }
                if r.chance(1, 5) {
                    v.extend_from_slice(r.range(0, 300).to_string().as_bytes());
                }
                if r.chance(1, 8) {
                    v.push(b':');
                }
                v.push(*r.pick(&specs[..46]));
            }
        }
    }
    v
}

// ---------------------------------------------------------------------------
// TZif

#[derive(Clone, Debug, Default)]
struct Layout {
    v1_hdr: usize,
    v2_hdr: usize,
    times: usize,
    idxs: usize,
    types: usize,
    chars: usize,
    leaps: usize,
    std: usize,
    ut: usize,
    footer: usize,
    counts: [usize; 6], // isut, isstd, leap, time, type, char (v2)
}

fn be32(b: &[u8], at: usize) -> Option<usize> {
    b.get(at..at + 4).map(|x| u32::from_be_bytes([x[0], x[1], x[2], x[3]]) as usize)
}

fn layout(b: &[u8]) -> Option<Layout> {
    if b.get(..4)? != b"TZif" || *b.get(4)? < b'2' {
        return None;
    }
    let c1: Vec<usize> = (0..6).map(|i| be32(b, 20 + 4 * i)).collect::<Option<Vec<_>>>()?;
    let v1_len = c1[3].checked_mul(5)?.checked_add(c1[4].checked_mul(6)?)?.checked_add(c1[5])?.checked_add(c1[2].checked_mul(8)?)?.checked_add(c1[1])?.checked_add(c1[0])?;
    let v2_hdr = 44usize.checked_add(v1_len)?;
    if b.get(v2_hdr..v2_hdr + 4)? != b"TZif" {
        return None;
    }
    let c: Vec<usize> = (0..6).map(|i| be32(b, v2_hdr + 20 + 4 * i)).collect::<Option<Vec<_>>>()?;
    let times = v2_hdr + 44;
    let idxs = times.checked_add(c[3].checked_mul(8)?)?;
    let types = idxs.checked_add(c[3])?;
    let chars = types.checked_add(c[4].checked_mul(6)?)?;
    let leaps = chars.checked_add(c[5])?;
    let std = leaps.checked_add(c[2].checked_mul(12)?)?;
    let ut = std.checked_add(c[1])?;
    let footer = ut.checked_add(c[0])?;
    if footer > b.len() {
        return None;
    }
    Some(Layout { v1_hdr: 0, v2_hdr, times, idxs, types, chars, leaps, std, ut, footer, counts: [c[0], c[1], c[2], c[3], c[4], c[5]] })
}

/// A structurally consistent version 2+ TZif file from tables.
pub fn build_tzif(version: u8, times: &[i64], idxs: &[u8], types: &[(i32, u8, u8)], chars: &[u8], std: &[u8], ut: &[u8], footer: &[u8], v1_too: bool) -> Vec<u8> {
    let mut out = Vec::new();
    let hdr = |out: &mut Vec<u8>, ut: usize, std: usize, leap: usize, time: usize, typ: usize, ch: usize| {
        out.extend_from_slice(b"TZif");
        out.push(version);
        out.extend_from_slice(&[0; 15]);
        for c in [ut, std, leap, time, typ, ch] {
            out.extend_from_slice(&(c as u32).to_be_bytes());
        }
    };
    if v1_too {
        let t32: Vec<(i32, u8)> = times.iter().zip(idxs).filter(|(t, _)| **t >= i32::MIN as i64 && **t <= i32::MAX as i64).map(|(t, i)| (*t as i32, *i)).collect();
        hdr(&mut out, ut.len(), std.len(), 0, t32.len(), types.len(), chars.len());
        for (t, _) in &t32 {
            out.extend_from_slice(&t.to_be_bytes());
        }
        for (_, i) in &t32 {
            out.push(*i);
        }
        for (o, d, a) in types {
            out.extend_from_slice(&o.to_be_bytes());
            out.push(*d);
            out.push(*a);
        }
        out.extend_from_slice(chars);
        out.extend_from_slice(std);
        out.extend_from_slice(ut);
    } else {
        hdr(&mut out, 0, 0, 0, 0, 1, 1);
        out.extend_from_slice(&[0, 0, 0, 0, 0, 0, 0]);
    }
    hdr(&mut out, ut.len(), std.len(), 0, times.len(), types.len(), chars.len());
    for t in times {
        out.extend_from_slice(&t.to_be_bytes());
    }
    out.extend_from_slice(&idxs[..times.len().min(idxs.len())]);
    for (o, d, a) in types {
        out.extend_from_slice(&o.to_be_bytes());
        out.push(*d);
        out.push(*a);
    }
    out.extend_from_slice(chars);
    out.extend_from_slice(std);
    out.extend_from_slice(ut);
    out.push(b'\n');
    out.extend_from_slice(footer);
    out.push(b'\n');
    out
}

/// Structurally valid, semantically hostile generated TZif.
fn gen_tzif(r: &mut Rng, posix_pool: &[Vec<u8>]) -> Vec<u8> {
    let ntypes = *r.pick(&[1usize, 1, 2, 3, 5, 17, 255, 256]);
    let ntimes = *r.pick(&[0usize, 0, 1, 2, 3, 8, 50, 400]);
    let mut chars: Vec<u8> = Vec::new();
    let nabbr = r.range(1, 6);
    for _ in 0..nabbr {
        let len = *r.pick(&[0usize, 1, 2, 3, 3, 4, 6, 30, 31, 40]);
        for _ in 0..len {
            chars.push(*r.pick(&b"ABCXYZ+-0123456789lmt\xff \x7f"[..]));
        }
        if !r.chance(1, 12) {
            chars.push(0);
        }
    }
    if chars.is_empty() {
        chars.push(0);
    }
    let types: Vec<(i32, u8, u8)> = (0..ntypes)
        .map(|_| {
            let o = match r.below(8) {
                0 => *r.pick(&[93599, -93599, 93600, -93600, i32::MAX, i32::MIN, 0, 86400, -86400, 89999, -89999]),
                1 => r.range(-100_000, 100_000) as i32,
                _ => r.range(-56, 56) as i32 * 900,
            };
            let d = if r.chance(1, 10) { *r.pick(&[2u8, 255, 128]) } else { r.below(2) as u8 };
            let a = if r.chance(1, 8) { *r.pick(&[chars.len() as u8, 255, (chars.len() as u8).wrapping_sub(1)]) } else { r.below(chars.len() as u64) as u8 };
            (o, d, a)
        })
        .collect();
    let mut times: Vec<i64> = Vec::new();
    let mode = r.below(6);
    let mut t = match mode {
        0 => i64::MIN,
        1 => zones::TS_MIN - 10,
        _ => r.range(-3_000_000_000, 3_000_000_000),
    };
    for _ in 0..ntimes {
        times.push(t);
        t = match mode {
            2 => t, // duplicates
            3 => t.wrapping_sub(r.range(1, 1_000_000)), // descending
            4 => *r.pick(&[i64::MAX, i64::MIN, zones::TS_MAX, zones::TS_MAX + 1, zones::TS_MIN, zones::TS_MIN - 1, 0, -1, 1 << 32, -(1 << 32), i64::MIN + 1]),
            5 => t.saturating_add(r.range(1, 3)),
            _ => t.saturating_add(r.range(1, 400_000_000)),
        };
    }
    let idxs: Vec<u8> = (0..ntimes).map(|_| if r.chance(1, 15) { *r.pick(&[ntypes.min(255) as u8, 255, 254]) } else { r.below(ntypes.min(256) as u64) as u8 }).collect();
    let nstd = *r.pick(&[0usize, 0, ntypes, ntypes, ntypes.saturating_sub(1), ntypes + 1]);
    let nut = *r.pick(&[0usize, 0, ntypes, ntypes, ntypes.saturating_sub(1), ntypes + 1]);
    let std: Vec<u8> = (0..nstd).map(|_| if r.chance(1, 10) { 2 } else { r.below(2) as u8 }).collect();
    let ut: Vec<u8> = (0..nut).map(|_| if r.chance(1, 10) { 2 } else { r.below(2) as u8 }).collect();
    let footer: Vec<u8> = match r.below(5) {
        0 => Vec::new(),
        1 => { let a = r.pick(posix_pool).clone(); let b = r.pick(posix_pool).clone(); mutate(&a, &b, r) },
        _ => r.pick(posix_pool).clone(),
    };
    build_tzif(*r.pick(&[b'2', b'2', b'3', b'4', b'9', 0, b'1']), &times, &idxs, &types, &chars, &std, &ut, &footer, r.chance(1, 2))
}

fn mutate_tzif(base: &[u8], r: &mut Rng, posix_pool: &[Vec<u8>]) -> Vec<u8> {
    let mut v = base.to_vec();
    let Some(l) = layout(&v) else {
        // not version 2+: byte-level only
        for _ in 0..r.range(1, 6) {
            if !v.is_empty() {
                let i = r.below(v.len() as u64) as usize;
                v[i] = r.below(256) as u8;
            }
        }
        return v;
    };
    let put32 = |v: &mut Vec<u8>, at: usize, x: u32| {
        if at + 4 <= v.len() {
            v[at..at + 4].copy_from_slice(&x.to_be_bytes());
        }
    };
    let put64 = |v: &mut Vec<u8>, at: usize, x: i64| {
        if at + 8 <= v.len() {
            v[at..at + 8].copy_from_slice(&x.to_be_bytes());
        }
    };
    let [_nut, _nstd, _nleap, ntime, ntype, nchar] = l.counts;
    for _ in 0..1 + r.below(3) {
        match r.below(14) {
            0 => {
                // a header count, v1 or v2
                let h = if r.chance(1, 3) { l.v1_hdr } else { l.v2_hdr };
                let k = r.below(6) as usize;
                let cur = be32(&v, h + 20 + 4 * k).unwrap_or(0) as u32;
                let x = *r.pick(&[cur.wrapping_add(1), cur.wrapping_sub(1), 0, u32::MAX, 0x7fff_ffff, 1, cur.wrapping_mul(2), 256, 257]);
                put32(&mut v, h + 20 + 4 * k, x);
            }
            1 => {
                let h = if r.chance(1, 2) { l.v1_hdr } else { l.v2_hdr };
                v[h + 4] = *r.pick(&[0u8, b'1', b'2', b'3', b'4', b'5', 0xff]);
            }
            2 if ntime > 0 => {
                let i = r.below(ntime as u64) as usize;
                let rnd = r.range(-5_000_000_000, 5_000_000_000);
                let x = *r.pick(&[i64::MIN, i64::MAX, 0, zones::TS_MIN, zones::TS_MIN - 1, zones::TS_MAX, zones::TS_MAX + 1, -1, i64::MIN + 1, rnd]);
                put64(&mut v, l.times + 8 * i, x);
            }
            3 if ntime > 1 => {
                // unsorted / duplicate
                let i = r.below(ntime as u64 - 1) as usize;
                let a = i64::from_be_bytes(v[l.times + 8 * i..l.times + 8 * i + 8].try_into().unwrap());
                let b = i64::from_be_bytes(v[l.times + 8 * i + 8..l.times + 8 * i + 16].try_into().unwrap());
                if r.chance(1, 2) {
                    put64(&mut v, l.times + 8 * i, b);
                    put64(&mut v, l.times + 8 * i + 8, a);
                } else {
                    put64(&mut v, l.times + 8 * i + 8, a);
                }
            }
            4 if ntime > 0 => {
                let i = r.below(ntime as u64) as usize;
                v[l.idxs + i] = *r.pick(&[ntype.min(255) as u8, 255, (ntype as u8).wrapping_add(1), 0]);
            }
            5 if ntype > 0 => {
                let i = r.below(ntype as u64) as usize;
                let x = *r.pick(&[93599i32, -93599, 93600, -93600, i32::MAX, i32::MIN, 0, 86400, -86400, 1, -1]);
                put32(&mut v, l.types + 6 * i, x as u32);
            }
            6 if ntype > 0 => {
                let i = r.below(ntype as u64) as usize;
                if r.chance(1, 2) {
                    v[l.types + 6 * i + 4] = *r.pick(&[2u8, 255, 1, 0]);
                } else {
                    v[l.types + 6 * i + 5] = *r.pick(&[nchar.min(255) as u8, 255, (nchar as u8).wrapping_sub(1), 0]);
                }
            }
            7 if nchar > 0 => {
                if r.chance(1, 2) {
                    for c in v[l.chars..l.chars + nchar].iter_mut() {
                        if *c == 0 {
                            *c = b'X';
                        }
                    }
                } else {
                    let i = r.below(nchar as u64) as usize;
                    v[l.chars + i] = *r.pick(&[0xffu8, 0x80, 0, b' ', b'\n']);
                }
            }
            8 => {
                for at in [l.std, l.ut] {
                    if at < l.footer && r.chance(1, 2) {
                        v[at] = *r.pick(&[2u8, 255, 1, 0]);
                    }
                }
            }
            9 => {
                // truncation at a block boundary +-1
                let b = *r.pick(&[l.v2_hdr, l.v2_hdr + 44, l.times, l.idxs, l.types, l.chars, l.leaps, l.std, l.ut, l.footer, l.footer + 1, v.len() - 1, 44, 4, 5, 20]);
                let at = (b as i64 + r.range(-1, 1)).clamp(0, v.len() as i64) as usize;
                v.truncate(at);
                return v;
            }
            10 => {
                // hostile footer
                let f: Vec<u8> = match r.below(4) {
                    0 => Vec::new(),
                    1 => std::iter::repeat(b'A').take(5000).collect(),
                    _ => { let a = r.pick(posix_pool).clone(); let b = r.pick(posix_pool).clone(); mutate(&a, &b, r) },
                };
                v.truncate(l.footer);
                if !r.chance(1, 6) {
                    v.push(b'\n');
                }
                v.extend_from_slice(&f);
                if !r.chance(1, 6) {
                    v.push(b'\n');
                }
            }
            11 => {
                for _ in 0..r.range(1, 8) {
                    let i = r.below(v.len() as u64) as usize;
                    v[i] = r.below(256) as u8;
                }
            }
            12 => {
                // v1 block differs from v2: scramble v1 data
                for i in 44..l.v2_hdr.min(v.len()) {
                    if r.chance(1, 4) {
                        v[i] = r.below(256) as u8;
                    }
                }
            }
            _ => {
                let i = r.below(4) as usize;
                v[i] ^= 0x20;
            }
        }
    }
    v
}

fn check_tzif(cx: &mut Ctx, bytes: &[u8], case: &dyn Fn() -> String, r: &mut Rng) {
    cx.eval(1);
    let res = guard(|| {
        let main = TimeZone::tzif("Mutated/Zone", bytes);
        let copy = crate::shared::TzifOwned::parse(Some("Mutated/Zone".to_string()), bytes).is_ok();
        (main, copy)
    });
    match res {
        Err(p) => cx.violation(&format!("TimeZone::tzif/panic@{}", p.loc()), case, || "Ok or Err".into(), || p.what.clone()),
        Ok((main, copy)) => {
            if main.is_ok() != copy {
                cx.violation("TimeZone::tzif/jiff-static-copy-accepts-differently", case, || format!("Ok={}", main.is_ok()), || format!("Ok={}", copy));
            }
            if let Ok(tz) = main {
                cx.count("tzif_accepted", 1);
                // every 4th accepted zone: run both iterators to exhaustion (cap above any possible transition count)
                let cap = if hash64(bytes) % 4 == 0 { bytes.len() / 8 + 45_000 } else { 1500 };
                match guard(|| battery_capped(&tz, r, cap)) {
                    Err(p) => cx.violation(&format!("TimeZone::tzif/lookup-panic@{}", p.loc()), case, || "every lookup answers".into(), || p.what.clone()),
                    Ok(Err(e)) => cx.violation(&format!("TimeZone::tzif/lookup: {}", e.split(|c: char| c.is_ascii_digit()).next().unwrap_or("")), case, || "sane answers".into(), || e.clone()),
                    Ok(Ok(n)) => {
                        cx.eval(n);
                        cx.count("tzif_lookups", n);
                    }
                }
            } else {
                cx.count("tzif_rejected", 1);
            }
        }
    }
}

// ---------------------------------------------------------------------------
// work proportional to size

extern "C" {
    fn clock_gettime(clk: i32, ts: *mut [i64; 2]) -> i32;
}
fn cpu_ns() -> i64 {
    let mut ts = [0i64; 2];
    unsafe { clock_gettime(3, &mut ts) }; // CLOCK_THREAD_CPUTIME_ID
    ts[0] * 1_000_000_000 + ts[1]
}

fn cost_inputs() -> Vec<(&'static str, Box<dyn Fn(usize) -> Vec<u8>>)> {
    fn rep(prefix: &'static str, unit: &'static str, suffix: &'static str) -> Box<dyn Fn(usize) -> Vec<u8>> {
        Box::new(move |n| {
            let mut v = prefix.as_bytes().to_vec();
            while v.len() < n {
                v.extend_from_slice(unit.as_bytes());
            }
            v.extend_from_slice(suffix.as_bytes());
            v
        })
    }
    vec![
        ("digits", rep("", "9", "")),
        ("zeros", rep("", "0", "")),
        ("spaces", rep("", " ", "")),
        ("letters", rep("", "a", "")),
        ("brackets", rep("2024-07-04T12:00:00Z", "[", "")),
        ("annotations", rep("2024-07-04T12:00:00Z", "[a=b]", "")),
        ("fraction", rep("2024-07-04T12:00:00.", "1", "Z")),
        ("dashes", rep("", "-", "")),
        ("iso-span-units", rep("P", "1Y", "")),
        ("iso-span-digits", rep("PT", "1", "S")),
        ("friendly-units", rep("", "1h ", "")),
        ("friendly-commas", rep("1h", ", ", "")),
        ("rfc2822-comment", rep("Thu, 4 Jul 2024 12:00:00 ", "(", "")),
        ("rfc2822-nested", rep("Thu, 4 Jul 2024 12:00:00 +0000 ", "(a", ")")),
        ("rfc2822-space", rep("Thu,", " ", "4 Jul 2024 12:00:00 +0000")),
        ("percent", rep("", "%", "")),
        ("percent-Y", rep("", "%Y", "")),
        ("percent-width", rep("%", "9", "Y")),
        ("posix-abbrev", rep("<", "A", ">5")),
        ("posix-digits", rep("EST", "5", "")),
        ("posix-rule", rep("EST5EDT,M3.2.0", "/1", "")),
    ]
}

fn check_cost(cx: &mut Ctx) {
    let inputs = cost_inputs();
    let mut pair = 0u64;
    for (ti, (tname, f)) in TARGETS.iter().enumerate() {
        for (iname, make) in &inputs {
            pair += 1;
            if !cx.mine(pair) {
                continue;
            }
            let measure = |n: usize| -> i64 {
                let inp = make(n);
                let mut rr = Rng::new(1);
                let mut best = i64::MAX;
                for _ in 0..2 {
                    let t0 = cpu_ns();
                    let _ = guard(|| f(&inp, &mut rr));
                    best = best.min(cpu_ns() - t0);
                }
                best
            };
            let mut worst: Option<(usize, i64, i64)> = None;
            let mut prev = measure(1 << 12);
            for k in 13..=19 {
                let n = 1usize << k;
                let t = measure(n);
                cx.eval(1);
                if prev > 5_000_000 && t > prev.saturating_mul(3) {
                    worst = Some((n, prev, t));
                    break;
                }
                if t > 2_000_000_000 {
                    // far too slow to continue doubling; judged by the ratio test above only
                    break;
                }
                prev = t;
            }
            if let Some((n, a, b)) = worst {
                // reproduce three times
                let mut again = 0;
                for _ in 0..3 {
                    let (x, y) = (measure(n / 2), measure(n));
                    if x > 5_000_000 && y > x.saturating_mul(3) {
                        again += 1;
                    }
                }
                if again == 3 {
                    cx.violation(&format!("{}/super-linear[{}]", tname, iname), || format!("cost|{}|{}", ti, iname), || "t(2n)/t(n) <= 3".into(), || format!("n={} t(n/2)={}us t(n)={}us", n, a / 1000, b / 1000));
                } else {
                    cx.note(format!("cost {} {}: a ratio above 3 at n={} did not reproduce ({} of 3)", tname, iname, n, again));
                }
            }
            cx.count("cost_pairs", 1);
        }
    }
}

// ---------------------------------------------------------------------------
// concatenated containers

fn check_concat(cx: &mut Ctx, r: &mut Rng, files: &[(String, std::path::PathBuf)], n: u64) {
    let dir = format!("{}/c17-concat-{}", cx.work, cx.shard);
    let _ = std::fs::create_dir_all(&dir);
    let mut zones_in: Vec<(String, Vec<u8>)> = Vec::new();
    for _ in 0..12 {
        if files.is_empty() {
            break;
        }
        let (name, p) = r.pick(files);
        if let Ok(b) = std::fs::read(p) {
            zones_in.push((name.clone(), b));
        }
    }
    zones_in.sort();
    zones_in.dedup_by(|a, b| a.0 == b.0);
    let good = crate::concat::pack("2025a", &zones_in);
    for i in 0..n {
        let mut v = good.clone();
        let nent = zones_in.len().max(1);
        if i > 0 {
            for _ in 0..1 + r.below(2) {
                match r.below(8) {
                    0 => {
                        let at = 12 + 4 * r.below(3) as usize;
                        let x = *r.pick(&[0u32, 23, 24, 25, u32::MAX, 0x7fff_ffff, v.len() as u32, v.len() as u32 + 1, 76, 24 + 52 * nent as u32 + 1]);
                        if at + 4 <= v.len() {
                            v[at..at + 4].copy_from_slice(&x.to_be_bytes());
                        }
                    }
                    1 => {
                        let e = 24 + 52 * r.below(nent as u64) as usize;
                        let at = e + 40 + 4 * r.below(2) as usize;
                        let x = *r.pick(&[0u32, 1, u32::MAX, 0x7fff_ffff, v.len() as u32, 11 << 20, 10 << 20]);
                        if at + 4 <= v.len() {
                            v[at..at + 4].copy_from_slice(&x.to_be_bytes());
                        }
                    }
                    2 => {
                        let e = 24 + 52 * r.below(nent as u64) as usize;
                        for k in 0..40 {
                            if e + k < v.len() && r.chance(1, 3) {
                                v[e + k] = *r.pick(&[0u8, 0xff, b'/', b'A', b'.', b' ']);
                            }
                        }
                    }
                    3 => {
                        let at = r.below(v.len() as u64 + 1) as usize;
                        v.truncate(at);
                    }
                    4 => {
                        let at = r.below(12) as usize;
                        if at < v.len() {
                            v[at] = r.below(256) as u8;
                        }
                    }
                    5 => {
                        // unsorted index: swap two entries
                        if nent > 1 {
                            let a = 24 + 52 * r.below(nent as u64) as usize;
                            let b = 24 + 52 * r.below(nent as u64) as usize;
                            if a + 52 <= v.len() && b + 52 <= v.len() {
                                for k in 0..52 {
                                    v.swap(a + k, b + k);
                                }
                            }
                        }
                    }
                    _ => {
                        for _ in 0..r.range(1, 6) {
                            if !v.is_empty() {
                                let at = r.below(v.len() as u64) as usize;
                                v[at] = r.below(256) as u8;
                            }
                        }
                    }
                }
            }
        }
        let path = format!("{}/tzdata", dir);
        if std::fs::write(&path, &v).is_err() {
            cx.inconclusive("cannot write the concatenated container");
            return;
        }
        cx.eval(1);
        let names: Vec<String> = zones_in.iter().map(|(n, _)| n.clone()).collect();
        let res = guard(|| {
            let db = TimeZoneDatabase::from_concatenated_path(&path);
            let mut got = 0u64;
            if let Ok(db) = db {
                let avail: Vec<String> = db.available().map(|n| n.as_str().to_string()).collect();
                for (k, n) in names.iter().chain(avail.iter()).take(60).enumerate() {
                    if let Ok(tz) = db.get(n) {
                        if k < names.len() {
                            got += 1;
                        }
                        let _ = tz.to_offset(Timestamp::UNIX_EPOCH);
                        let _ = tz.following(Timestamp::MIN).take(5).count();
                    }
                }
                let _ = db.get("does/not/exist").is_err();
            }
            got
        });
        match res {
            Err(p) => {
                let hexv = hex(&v);
                cx.violation(&format!("from_concatenated_path/panic@{}", p.loc()), || format!("concat|{}", hexv), || "Ok or Err".into(), || p.what.clone())
            }
            Ok(got) => {
                let expect = zones_in.iter().filter(|(n, b)| n.len() <= 40 && TimeZone::tzif(n, b).is_ok()).count();
                if i == 0 && got as usize != expect {
                    let names: Vec<&String> = zones_in.iter().map(|(n, _)| n).collect();
                    cx.violation("from_concatenated_path/unmutated-container-incomplete", || "concat|good".into(), || format!("{} zones", expect), || format!("{} of {:?}", got, names));
                }
                cx.count("concat_zone_loads", got);
            }
        }
    }
    let _ = std::fs::remove_dir_all(&dir);
}

// ---------------------------------------------------------------------------

pub fn run(cx: &mut Ctx) {
    if let Some(case) = cx.case.clone() {
        return replay(cx, &case);
    }
    let part = cx.opt("part").unwrap_or("all").to_string();
    let mut r = Rng::new(cx.shard_seed());
    let mut cr = Rng::new(cx.seed ^ 0xC17);
    let corp = corpus(&mut cr);
    cx.count("corpus_strings", corp.len() as u64);
    let posix_pool: Vec<Vec<u8>> = zones::FIXED_POSIX.iter().map(|p| p.as_bytes().to_vec()).chain((0..10).map(|_| zones::gen_posix(&mut cr).into_bytes())).collect();

    if part == "all" || part == "text" {
        // the unmutated corpus must be accepted by at least one parser each (sanity of the workload), and every prefix is tried
        let mut accepted = 0u64;
        for (i, c) in corp.iter().enumerate() {
            if !cx.mine(i as u64) {
                continue;
            }
            if run_text(cx, c, &mut r, None) {
                accepted += 1;
            }
            for k in 0..c.len() {
                run_text(cx, &c[..k], &mut r, None);
                run_text(cx, &c[k..], &mut r, None);
            }
        }
        cx.count("corpus_accepted_unmutated", accepted);
        let n = cx.budget(1_600_000, 120_000_000);
        for i in 0..n {
            let input = match r.below(10) {
                0 => {
                    let len = *r.pick(&[0u64, 1, 2, 3, 5, 8, 16, 33, 100]);
                    (0..len).map(|_| r.below(256) as u8).collect()
                }
                1 => {
                    let len = r.range(1, 40);
                    (0..len).map(|_| *r.pick(&b"0123456789-+:.TZ PYMWDHSymwdhs,[]/=! agoutc%"[..])).collect()
                }
                _ => {
                    let a = r.pick(&corp).clone();
                    let b = r.pick(&corp).clone();
                    mutate(&a, &b, &mut r)
                }
            };
            let ok = run_text(cx, &input, &mut r, None);
            if i % 8 == 0 || ok {
                cx.nontrivial(hash64(&input));
            }
        }
        // strptime with arbitrary format strings
        let n = cx.budget(1_000_000, 60_000_000);
        let z = Zoned::new(Timestamp::new(1_720_000_000, 123_456_789).unwrap(), TimeZone::get("America/New_York").unwrap_or(TimeZone::UTC));
        for i in 0..n {
            let fmt = if r.chance(1, 3) { mutate(r.pick(&STRP_FORMATS).as_bytes(), b"%Y%%", &mut r) } else { gen_format(&mut r) };
            let input = match r.below(4) {
                0 => r.pick(&corp).clone(),
                1 => { let a = r.pick(&corp).clone(); mutate(&a, b"", &mut r) }
                _ => match guard(|| strtime::format(&fmt, &z).ok()) {
                    Ok(Some(sx)) => {
                        if r.chance(1, 2) {
                            sx.into_bytes()
                        } else {
                            mutate(sx.as_bytes(), b"0", &mut r)
                        }
                    }
                    Ok(None) => Vec::new(),
                    Err(p) => {
                        cx.violation(&format!("strtime::format/panic@{}", p.loc()), || format!("strp|{}|", hex(&fmt)), || "Ok or Err".into(), || p.what.clone());
                        Vec::new()
                    }
                },
            };
            cx.eval(1);
            match guard(|| strp_all(&fmt, &input)) {
                Err(p) => cx.violation(&format!("strtime::parse(arbitrary format)/panic@{}", p.loc()), || format!("strp|{}|{}", hex(&fmt), hex(&input)), || "Ok or Err".into(), || format!("{} (format {:?} input {:?})", p.what, String::from_utf8_lossy(&fmt), String::from_utf8_lossy(&input))),
                Ok(Some(Err(e))) => cx.violation("strtime::parse(arbitrary format)/accepted-value-not-sane", || format!("strp|{}|{}", hex(&fmt), hex(&input)), || "in range".into(), || e.clone()),
                Ok(Some(Ok(()))) => cx.count("accepted[strtime::parse(arbitrary format)]", 1),
                Ok(None) => {}
            }
            if i % 8 == 0 {
                cx.nontrivial(hash_mix(hash64(&fmt), hash64(&input)));
            }
        }
    }

    if part == "all" || part == "tzif" {
        let mut files = zones::system();
        for (_, n, p) in zones::synthetic(&cx.work) {
            files.push((n, p));
        }
        if files.is_empty() {
            cx.inconclusive("no TZif files found");
            return;
        }
        // every real file, unmutated, plus truncation at every length of a few of them
        for (i, (name, p)) in files.iter().enumerate() {
            if !cx.mine(i as u64) {
                continue;
            }
            let Ok(b) = std::fs::read(p) else { continue };
            let id = format!("tzif|{}|good", p.display());
            check_tzif(cx, &b, &|| id.clone(), &mut r);
            if i % 23 == 0 {
                for k in 0..b.len() {
                    let id = format!("tzif|{}|trunc{}", p.display(), k);
                    check_tzif(cx, &b[..k], &|| id.clone(), &mut r);
                }
            }
            let _ = name;
        }
        for b in jiff_tzdb_samples(cx.shard) {
            check_tzif(cx, &b, &|| "tzif|bundled|good".into(), &mut r);
        }
        let n = cx.budget(160_000, 12_000_000);
        for i in 0..n {
            let (bytes, id) = if i % 4 == 3 {
                let seed = r.next();
                (gen_tzif(&mut Rng::new(seed), &posix_pool), format!("tzif|gen|{}", seed))
            } else {
                let (_, p) = r.pick(&files);
                let Ok(b) = std::fs::read(p) else { continue };
                let seed = r.next();
                (mutate_tzif(&b, &mut Rng::new(seed), &posix_pool), format!("tzif|{}|{}", p.display(), seed))
            };
            check_tzif(cx, &bytes, &|| id.clone(), &mut r);
            if i % 4 == 0 {
                cx.nontrivial(hash64(&bytes));
            }
        }
        check_concat(cx, &mut r, &files, cx.budget(6_000, 400_000));
    }

    if part == "all" || part == "cost" {
        check_cost(cx);
    }
    let ex: Vec<u8> = r.pick(&corp).clone();
    let shard = cx.shard;
    cx.sample(|| format!("corpus example {:?}; mutated {:?}", String::from_utf8_lossy(&ex), String::from_utf8_lossy(&mutate(&ex, b"Z", &mut Rng::new(shard)))));
    let _ = cal::MIN_DAY;
}

fn jiff_tzdb_samples(shard: u64) -> Vec<Vec<u8>> {
    zones::bundled_names().iter().enumerate().filter(|(i, _)| *i as u64 % 16 == shard % 16).filter_map(|(_, n)| zones::resolve(&format!("bundled:{}", n), "").ok().and_then(|z| z.bytes)).collect()
}

fn replay(cx: &mut Ctx, case: &str) {
    let p: Vec<&str> = case.splitn(3, '|').collect();
    let mut r = Rng::new(7);
    let posix_pool: Vec<Vec<u8>> = {
        let mut cr = Rng::new(cx.seed ^ 0xC17);
        let _ = corpus(&mut cr);
        zones::FIXED_POSIX.iter().map(|p| p.as_bytes().to_vec()).chain((0..10).map(|_| zones::gen_posix(&mut cr).into_bytes())).collect()
    };
    match p[0] {
        "text" => {
            let i: usize = p[1].parse().unwrap_or(0);
            let b = unhex(p.get(2).copied().unwrap_or(""));
            run_text(cx, &b, &mut r, Some(i));
        }
        "strp" => {
            let (f, i) = (unhex(p[1]), unhex(p.get(2).copied().unwrap_or("")));
            cx.eval(1);
            match guard(|| strp_all(&f, &i)) {
                Err(pn) => cx.violation(&format!("strtime::parse(arbitrary format)/panic@{}", pn.loc()), || case.to_string(), || "Ok or Err".into(), || pn.what.clone()),
                Ok(Some(Err(e))) => cx.violation("strtime::parse(arbitrary format)/accepted-value-not-sane", || case.to_string(), || "in range".into(), || e.clone()),
                _ => {}
            }
            if let Err(pn) = guard(|| strtime::format(&f, &Zoned::new(Timestamp::new(1_720_000_000, 123_456_789).unwrap(), TimeZone::UTC)).ok()) {
                cx.violation(&format!("strtime::format/panic@{}", pn.loc()), || case.to_string(), || "Ok or Err".into(), || pn.what.clone());
            }
        }
        "tzif" => {
            let what = p.get(2).copied().unwrap_or("good");
            let bytes = if p[1] == "gen" {
                gen_tzif(&mut Rng::new(what.parse().unwrap_or(0)), &posix_pool)
            } else {
                let Ok(b) = std::fs::read(p[1]) else {
                    cx.inconclusive("replay file missing");
                    return;
                };
                if what == "good" {
                    b
                } else if let Some(k) = what.strip_prefix("trunc") {
                    b[..k.parse::<usize>().unwrap_or(0).min(b.len())].to_vec()
                } else {
                    mutate_tzif(&b, &mut Rng::new(what.parse().unwrap_or(0)), &posix_pool)
                }
            };
            if let Some(path) = cx.opt("dump") {
                let _ = std::fs::write(path, &bytes);
            }
            check_tzif(cx, &bytes, &|| case.to_string(), &mut r);
        }
        "cost" => check_cost(cx),
        _ => cx.inconclusive("case kind not replayable (concat cases are replayed by re-running the shard)"),
    }
    println!("replay {}: evaluations={} violations={}", &case[..case.len().min(80)], cx.evals, cx.viol_total);
}

//! Allocator monitor for C20 (cargo feature `allocmon`): a counting global
//! allocator that knows the heap *footprint* of every heap-backed time zone
//! the harness creates, and the harness's model reference count of that zone.
//!
//! * a footprint block freed while the model count is > 0 is a premature free
//!   (the block is then deliberately leaked so that the run stays defined),
//! * a footprint block freed a second time without having been handed out
//!   again is a double free (not passed on to the system allocator),
//! * when the model count reaches 0, the whole footprint must be gone.
//!
//! The allocator also never over-aligns (see `sys_alloc`): every block with an
//! alignment request of at most 8 lives at an address that is 8 modulo 16.
//!
//! Addresses are kept as integers in fixed static tables, nothing here
//! allocates. The monitor is compiled out of the asan/valgrind/miri runs: a
//! table of remembered addresses would hide leaks from those tools.

use std::alloc::{GlobalAlloc, Layout, System};
use std::cell::Cell;
use std::sync::atomic::{AtomicBool, AtomicI64, AtomicU64, AtomicUsize, Ordering::SeqCst};

pub struct Mon;

const CAP: usize = 1 << 18;
const MAXZ: usize = 1 << 14;
const LIVE: u64 = 1;
const FREED: u64 = 2;
const GONE: u64 = 3;

#[allow(clippy::declare_interior_mutable_const)]
const AU0: AtomicUsize = AtomicUsize::new(0);
#[allow(clippy::declare_interior_mutable_const)]
const A64: AtomicU64 = AtomicU64::new(0);
#[allow(clippy::declare_interior_mutable_const)]
const AI0: AtomicI64 = AtomicI64::new(0);

static ENABLED: AtomicBool = AtomicBool::new(false);
static KEYS: [AtomicUsize; CAP] = [AU0; CAP];
static META: [AtomicU64; CAP] = [A64; CAP]; // zone << 2 | state
static USED: AtomicUsize = AtomicUsize::new(0);
static MODEL: [AtomicI64; MAXZ] = [AI0; MAXZ];
static ZONE_LIVE: [AtomicI64; MAXZ] = [AI0; MAXZ];

static REC_BUF: [AtomicUsize; 4096] = [AU0; 4096];
static REC_LEN: AtomicUsize = AtomicUsize::new(0);
thread_local!(static RECORDING: Cell<bool> = const { Cell::new(false) });

static ERR_KIND: [AtomicUsize; 64] = [AU0; 64];
static ERR_ZONE: [AtomicUsize; 64] = [AU0; 64];
static ERR_ADDR: [AtomicUsize; 64] = [AU0; 64];
static ERR_LEN: AtomicUsize = AtomicUsize::new(0);
pub static ALLOCS: AtomicU64 = AtomicU64::new(0);
pub static FREES: AtomicU64 = AtomicU64::new(0);
pub static FOOTPRINT_FREES: AtomicU64 = AtomicU64::new(0);

fn slot_of(addr: usize) -> usize {
    (addr.wrapping_mul(0x9E37_79B9_7F4A_7C15) >> 20) & (CAP - 1)
}

fn find(addr: usize) -> Option<usize> {
    let mut i = slot_of(addr);
    for _ in 0..CAP {
        let k = KEYS[i].load(SeqCst);
        if k == addr {
            return Some(i);
        }
        if k == 0 {
            return None;
        }
        i = (i + 1) & (CAP - 1);
    }
    None
}

fn insert(addr: usize, zone: usize) -> bool {
    let mut i = slot_of(addr);
    for _ in 0..CAP {
        let k = KEYS[i].load(SeqCst);
        if k == addr || (k == 0 && KEYS[i].compare_exchange(0, addr, SeqCst, SeqCst).is_ok()) {
            if k == 0 {
                USED.fetch_add(1, SeqCst);
            }
            META[i].store((zone as u64) << 2 | LIVE, SeqCst);
            return true;
        }
        i = (i + 1) & (CAP - 1);
    }
    false
}

fn error(kind: usize, zone: usize, addr: usize) {
    let n = ERR_LEN.fetch_add(1, SeqCst);
    if n < 64 {
        ERR_KIND[n].store(kind, SeqCst);
        ERR_ZONE[n].store(zone, SeqCst);
        ERR_ADDR[n].store(addr, SeqCst);
    }
}

unsafe impl GlobalAlloc for Mon {
    unsafe fn alloc(&self, layout: Layout) -> *mut u8 {
        let p = unsafe { sys_alloc(layout) };
        if ENABLED.load(SeqCst) && !p.is_null() {
            ALLOCS.fetch_add(1, SeqCst);
            let addr = p as usize;
            if let Some(i) = find(addr) {
                // the address is handed out again: earlier history of it is over
                META[i].store(GONE, SeqCst);
            }
            if RECORDING.with(|r| r.get()) {
                let n = REC_LEN.fetch_add(1, SeqCst);
                if n < 4096 {
                    REC_BUF[n].store(addr, SeqCst);
                }
            }
        }
        p
    }
    unsafe fn dealloc(&self, p: *mut u8, layout: Layout) {
        if ENABLED.load(SeqCst) {
            FREES.fetch_add(1, SeqCst);
            let addr = p as usize;
            if RECORDING.with(|r| r.get()) {
                let n = REC_LEN.load(SeqCst).min(4096);
                for slot in REC_BUF.iter().take(n) {
                    if slot.load(SeqCst) == addr {
                        slot.store(0, SeqCst);
                    }
                }
            }
            if let Some(i) = find(addr) {
                let meta = META[i].load(SeqCst);
                let (zone, state) = ((meta >> 2) as usize, meta & 3);
                if state == LIVE {
                    if MODEL[zone % MAXZ].load(SeqCst) > 0 {
                        // premature free: keep the memory (leak) so that live handles stay defined
                        error(1, zone, addr);
                        return;
                    }
                    META[i].store((zone as u64) << 2 | FREED, SeqCst);
                    ZONE_LIVE[zone % MAXZ].fetch_sub(1, SeqCst);
                    FOOTPRINT_FREES.fetch_add(1, SeqCst);
                } else if state == FREED {
                    error(2, zone, addr);
                    return;
                }
            }
        }
        unsafe { sys_dealloc(p, layout) }
    }
}

/// A legal but hostile allocator: a block whose layout asks for an alignment of at most 8 is placed at an address that
/// is 8 modulo 16, i.e. it is never aligned more strictly than requested (glibc over-aligns everything to 16, which
/// hides code that borrows more low pointer bits than the alignment of its types guarantees).
unsafe fn sys_alloc(layout: Layout) -> *mut u8 {
    if layout.align() > 8 || layout.size() == 0 {
        return unsafe { System.alloc(layout) };
    }
    let Ok(l2) = Layout::from_size_align(layout.size() + 16, 16) else { return core::ptr::null_mut() };
    let b = unsafe { System.alloc(l2) };
    if b.is_null() {
        b
    } else {
        unsafe { b.add(8) }
    }
}

unsafe fn sys_dealloc(p: *mut u8, layout: Layout) {
    if layout.align() > 8 || layout.size() == 0 {
        return unsafe { System.dealloc(p, layout) };
    }
    let l2 = unsafe { Layout::from_size_align_unchecked(layout.size() + 16, 16) };
    unsafe { System.dealloc(p.sub(8), l2) }
}

pub fn enable(on: bool) {
    ENABLED.store(on, SeqCst);
}

/// Start capturing the allocations made by this thread.
pub fn begin_record() {
    REC_LEN.store(0, SeqCst);
    RECORDING.with(|r| r.set(true));
}

/// Stop capturing; the captured blocks that are still allocated become the
/// footprint of `zone`. Returns the number of blocks.
pub fn end_record(zone: usize) -> usize {
    RECORDING.with(|r| r.set(false));
    let n = REC_LEN.load(SeqCst).min(4096);
    let mut blocks = 0;
    for slot in REC_BUF.iter().take(n) {
        let addr = slot.load(SeqCst);
        if addr != 0 && insert(addr, zone) {
            blocks += 1;
        }
    }
    ZONE_LIVE[zone % MAXZ].store(blocks as i64, SeqCst);
    blocks
}

/// Stop capturing without registering anything.
pub fn cancel_record() {
    RECORDING.with(|r| r.set(false));
}

pub fn set_model_count(zone: usize, n: i64) {
    MODEL[zone % MAXZ].store(n, SeqCst);
}

pub fn live_blocks(zone: usize) -> i64 {
    ZONE_LIVE[zone % MAXZ].load(SeqCst)
}

pub fn table_load() -> usize {
    USED.load(SeqCst)
}

/// Forget everything (only at a quiescent point with no zone alive).
pub fn reset() {
    for i in 0..CAP {
        KEYS[i].store(0, SeqCst);
        META[i].store(0, SeqCst);
    }
    USED.store(0, SeqCst);
    for i in 0..MAXZ {
        MODEL[i].store(0, SeqCst);
        ZONE_LIVE[i].store(0, SeqCst);
    }
}

pub fn take_errors() -> Vec<String> {
    let n = ERR_LEN.swap(0, SeqCst).min(64);
    (0..n)
        .map(|i| {
            let kind = match ERR_KIND[i].load(SeqCst) {
                1 => "premature free (block of a zone that still has live handles)",
                _ => "double free",
            };
            format!("{}: zone #{} block {:#x}", kind, ERR_ZONE[i].load(SeqCst), ERR_ADDR[i].load(SeqCst))
        })
        .collect()
}

//! C20 — TimeZone handles are memory-safe values. Seeded programs over a pool
//! of handles (create / clone / drop / move into containers / compare / query
//! / share with threads) run against a model of live handles; after every
//! step every live handle must answer as it did when its zone was created,
//! the real Arc strong count (hook H3) must equal the model count, and the
//! allocator monitor (feature `allocmon`) watches the heap footprint of every
//! zone. The same programs run under ASan/LSan, TSan, Miri and valgrind.

use crate::rep::{guard, Ctx};
use crate::rng::{hash64, hash_mix, Rng};
use jiff::tz::{Offset, TimeZone, TimeZoneDatabase};
use jiff::{Timestamp, Zoned};

#[cfg(feature = "allocmon")]
use crate::allocmon as mon;

const PROBES: [(i64, i32); 4] = [(0, 0), (1_720_000_000, 5), (-2_000_000_000, -7), (4_000_000_000, 0)];

#[derive(Clone, Debug, PartialEq)]
struct Answers {
    offsets: [i32; 4],
    name: Option<String>,
    abbr: String,
    tag: usize,
}

fn ask(tz: &TimeZone) -> Answers {
    let mut offsets = [0; 4];
    for (i, (s, n)) in PROBES.iter().enumerate() {
        offsets[i] = tz.to_offset(Timestamp::new(*s, *n).unwrap()).seconds();
    }
    #[cfg(jiff_verif)]
    let tag = tz.__verif_repr().0;
    #[cfg(not(jiff_verif))]
    let tag = 0;
    Answers { offsets, name: tz.iana_name().map(|s| s.to_string()), abbr: tz.to_offset_info(Timestamp::new(PROBES[1].0, PROBES[1].1).unwrap()).abbreviation().to_string(), tag }
}

fn strong(tz: &TimeZone) -> Option<usize> {
    #[cfg(jiff_verif)]
    {
        tz.__verif_repr().1
    }
    #[cfg(not(jiff_verif))]
    {
        let _ = tz;
        None
    }
}

/// How a zone is made; also its value identity for `==`.
#[derive(Clone, Debug, PartialEq)]
enum Recipe {
    Utc,
    Unknown,
    Fixed(i32),
    Posix(String),
    Tzif(String),   // bundled name, through TimeZone::tzif(bytes)
    TzifAs(String, String), // (identifier, bundled name whose bytes are used): same identifier over different data must not compare equal
    Db(String),     // through a database lookup (the cache's handle is released by reset)
    Static(String), // tz::get! (only in the "static" build)
}

const POSIX: [&str; 6] = ["EST5EDT,M3.2.0,M11.1.0", "CET-1CEST,M3.5.0,M10.5.0/3", "<+0545>-5:45", "AEST-10AEDT,M10.1.0,M4.1.0/3", "IST-2IDT,M3.4.4/26,M10.5.0", "EST5"];
const NAMES: [&str; 8] = ["America/New_York", "Europe/London", "Asia/Kolkata", "Australia/Lord_Howe", "Africa/Monrovia", "Pacific/Apia", "America/Sao_Paulo", "Europe/Dublin"];

fn gen_recipe(r: &mut Rng) -> Recipe {
    match r.below(12) {
        0 => Recipe::Utc,
        1 => Recipe::Unknown,
        2 | 3 => Recipe::Fixed(match r.below(4) {
            0 => *r.pick(&[0, 1, -1, 93599, -93599, 3600, -3600, 16, -16, 15, -15, 8, -8]),
            _ => r.range(-93599, 93599) as i32,
        }),
        4 | 5 => Recipe::Posix(r.pick(&POSIX).to_string()),
        6 | 7 => Recipe::Tzif(r.pick(&NAMES).to_string()),
        8 => Recipe::TzifAs(r.pick(&["Custom/Zone", "America/New_York"]).to_string(), r.pick(&NAMES[..3]).to_string()),
        9 | 10 => Recipe::Db(r.pick(&NAMES).to_string()),
        _ => Recipe::Static(r.pick(&NAMES).to_string()),
    }
}

fn make(recipe: &Recipe, db: &TimeZoneDatabase) -> Option<TimeZone> {
    Some(match recipe {
        Recipe::Utc => TimeZone::UTC,
        Recipe::Unknown => TimeZone::unknown(),
        Recipe::Fixed(o) => TimeZone::fixed(Offset::from_seconds(*o).ok()?),
        Recipe::Posix(s) => TimeZone::posix(s).ok()?,
        Recipe::Tzif(n) => {
            let (name, bytes) = jiff_tzdb::get(n)?;
            TimeZone::tzif(name, bytes).ok()?
        }
        Recipe::TzifAs(id, n) => {
            let (_, bytes) = jiff_tzdb::get(n)?;
            TimeZone::tzif(id, bytes).ok()?
        }
        Recipe::Db(n) => {
            let tz = db.get(n).ok()?;
            // the bundled database does not cache; a caching one would keep a handle of its own
            db.reset();
            tz
        }
        Recipe::Static(n) => {
            #[cfg(feature = "statictz")]
            {
                crate::gen_static::get(n)?
            }
            #[cfg(not(feature = "statictz"))]
            {
                let _ = n;
                return None;
            }
        }
    })
}

struct ZoneRec {
    recipe: Recipe,
    answers: Answers,
    model_count: i64,
    heap: bool,
    footprint: usize,
}

enum Holder {
    Plain(TimeZone),
    Boxed(Box<TimeZone>),
    InVec(Vec<TimeZone>),
    InZoned(Zoned),
}

impl Holder {
    fn handles(&self) -> Vec<&TimeZone> {
        match self {
            Holder::Plain(t) => vec![t],
            Holder::Boxed(t) => vec![&**t],
            Holder::InVec(v) => v.iter().collect(),
            Holder::InZoned(z) => vec![z.time_zone()],
        }
    }
    fn count(&self) -> i64 {
        match self {
            Holder::InVec(v) => v.len() as i64,
            _ => 1,
        }
    }
}

struct Machine {
    zones: Vec<ZoneRec>,
    slots: Vec<Option<(usize, Holder)>>, // (zone id, holder)
    steps: u64,
}

fn check_all(cx: &mut Ctx, m: &Machine, case: &dyn Fn() -> String, what: &str) -> bool {
    // every live handle answers as at creation; strong counts agree with the model
    let mut seen_strong: Vec<Option<usize>> = vec![None; m.zones.len()];
    for (zid, h) in m.slots.iter().flatten() {
        for tz in h.handles() {
            cx.eval(1);
            let a = ask(tz);
            if a != m.zones[*zid].answers {
                cx.violation("live-handle-answers-differently", case, || format!("{:?}", m.zones[*zid].answers), || format!("{:?} after {} ({:?})", a, what, m.zones[*zid].recipe));
                return false;
            }
            if let Some(s) = strong(tz) {
                seen_strong[*zid] = Some(s);
            }
        }
    }
    for (zid, z) in m.zones.iter().enumerate() {
        if let Some(s) = seen_strong[zid] {
            cx.eval(1);
            if s as i64 != z.model_count {
                cx.violation("strong-count-differs-from-model", case, || format!("{} handles of {:?}", z.model_count, z.recipe), || format!("strong count {} after {}", s, what));
                return false;
            }
        }
        #[cfg(feature = "allocmon")]
        if z.heap {
            let live = mon::live_blocks(zid);
            if z.model_count > 0 && live != z.footprint as i64 {
                cx.violation("allocator-monitor/footprint-shrank-while-handles-live", case, || format!("{} blocks of {:?}", z.footprint, z.recipe), || format!("{} after {}", live, what));
                return false;
            }
            if z.model_count == 0 && live != 0 {
                cx.violation("allocator-monitor/zone-not-freed-after-last-drop", case, || format!("0 blocks of {:?}", z.recipe), || format!("{} of {} still allocated after {}", live, z.footprint, what));
                return false;
            }
        }
    }
    #[cfg(feature = "allocmon")]
    {
        let errs = mon::take_errors();
        if let Some(e) = errs.first() {
            let zid: usize = e.split('#').nth(1).and_then(|x| x.split(' ').next()).and_then(|x| x.parse().ok()).unwrap_or(0);
            let rec = m.zones.get(zid).map(|z| format!("{:?}", z.recipe)).unwrap_or_default();
            cx.violation(&format!("allocator-monitor/{}", e.split(':').next().unwrap_or("")), case, || "no such event".into(), || format!("{} ({}) after {}", e, rec, what));
            return false;
        }
    }
    true
}

fn run_program(cx: &mut Ctx, seed: u64, max_steps: u64, threads: bool) -> bool {
    let mut r = Rng::new(seed);
    let db = TimeZoneDatabase::bundled();
    let case = move || format!("prog|{}|{}|{}", seed, max_steps, threads as u8);
    #[cfg(feature = "allocmon")]
    {
        mon::reset();
        mon::enable(true);
    }
    let mut m = Machine { zones: Vec::new(), slots: (0..12).map(|_| None).collect(), steps: 0 };
    let mut ok = true;
    let nsteps = r.range(max_steps as i64 / 3, max_steps as i64) as u64;
    for _ in 0..nsteps {
        m.steps += 1;
        let free: Vec<usize> = (0..m.slots.len()).filter(|&i| m.slots[i].is_none()).collect();
        let used: Vec<usize> = (0..m.slots.len()).filter(|&i| m.slots[i].is_some()).collect();
        let op = r.below(12);
        let what: String;
        match op {
            0 | 1 | 2 if !free.is_empty() => {
                // new zone
                let recipe = gen_recipe(&mut r);
                let zid = m.zones.len();
                #[cfg(feature = "allocmon")]
                mon::begin_record();
                let made = guard(|| make(&recipe, &db));
                #[cfg(feature = "allocmon")]
                let footprint = match &made {
                    Ok(Some(_)) => {
                        mon::set_model_count(zid, 1);
                        mon::end_record(zid)
                    }
                    _ => {
                        mon::cancel_record();
                        0
                    }
                };
                #[cfg(not(feature = "allocmon"))]
                let footprint = 0usize;
                let tz = match made {
                    Ok(Some(tz)) => tz,
                    Ok(None) => continue,
                    Err(p) => {
                        cx.violation(&format!("constructor-panic@{}", p.loc()), &case, || "a time zone".into(), || format!("{:?}: {}", recipe, p.what));
                        ok = false;
                        break;
                    }
                };
                let answers = ask(&tz);
                let heap = matches!(recipe, Recipe::Posix(_) | Recipe::Tzif(_) | Recipe::TzifAs(..) | Recipe::Db(_));
                // fixed offsets reproduce their offset exactly
                if let Recipe::Fixed(o) = recipe {
                    cx.eval(1);
                    if answers.offsets != [o; 4] || tz.to_fixed_offset().ok().map(|x| x.seconds()) != Some(o) {
                        cx.violation("fixed-offset-not-reproduced", &case, || format!("{}", o), || format!("{:?} / {:?}", answers.offsets, tz.to_fixed_offset()));
                        ok = false;
                        break;
                    }
                }
                what = format!("new {:?}", recipe);
                m.zones.push(ZoneRec { recipe, answers, model_count: 1, heap, footprint });
                m.slots[free[0]] = Some((zid, Holder::Plain(tz)));
            }
            3 | 4 if !free.is_empty() && !used.is_empty() => {
                // clone into another holder kind
                let src = *r.pick(&used);
                let (zid, tz) = {
                    let (zid, h) = m.slots[src].as_ref().unwrap();
                    (*zid, h.handles()[0].clone())
                };
                let holder = match r.below(4) {
                    0 => Holder::Plain(tz),
                    1 => Holder::Boxed(Box::new(tz)),
                    2 => {
                        let n = r.range(1, 4) as usize;
                        let mut v = Vec::with_capacity(n);
                        for _ in 1..n {
                            v.push(tz.clone());
                        }
                        v.push(tz);
                        Holder::InVec(v)
                    }
                    _ => Holder::InZoned(Zoned::new(Timestamp::new(r.range(-1_000_000_000, 2_000_000_000), 0).unwrap(), tz)),
                };
                m.zones[zid].model_count += holder.count();
                #[cfg(feature = "allocmon")]
                mon::set_model_count(zid, m.zones[zid].model_count);
                what = format!("clone of zone #{} into slot {}", zid, free[0]);
                m.slots[free[0]] = Some((zid, holder));
            }
            5 | 6 | 7 if !used.is_empty() => {
                // drop a holder
                let i = *r.pick(&used);
                let (zid, h) = m.slots[i].take().unwrap();
                m.zones[zid].model_count -= h.count();
                #[cfg(feature = "allocmon")]
                mon::set_model_count(zid, m.zones[zid].model_count);
                what = format!("drop of slot {} (zone #{}, {} left)", i, zid, m.zones[zid].model_count);
                drop(h);
            }
            8 if used.len() >= 2 => {
                // equality: reflexive, symmetric, stable under cloning, and true exactly for the same value
                let (a, b) = (*r.pick(&used), *r.pick(&used));
                let (za, ha) = m.slots[a].as_ref().unwrap();
                let (zb, hb) = m.slots[b].as_ref().unwrap();
                let (ta, tb) = (ha.handles()[0], hb.handles()[0]);
                cx.eval(4);
                // (TimeZone::fixed(0) is the UTC value by construction)
                let canon = |r: &Recipe| if *r == Recipe::Fixed(0) { Recipe::Utc } else { r.clone() };
                let same_value = canon(&m.zones[*za].recipe) == canon(&m.zones[*zb].recipe) || (za == zb);
                let (ab, ba) = (ta == tb, tb == ta);
                let ca = ta.clone();
                what = format!("== of slots {} and {}", a, b);
                if ta != ta || ab != ba || (ca == *tb) != ab || ca != *ta {
                    cx.violation("equality-not-reflexive-symmetric-clone-stable", &case, || "reflexive, symmetric, stable under clone".into(), || format!("a==b {} b==a {} clone(a)==b {} for {:?} / {:?}", ab, ba, ca == *tb, m.zones[*za].recipe, m.zones[*zb].recipe));
                    ok = false;
                    break;
                }
                // (a Db zone and a Tzif zone of the same name are the same bytes under the same name: equal too)
                // value identity of TZif-backed zones: (identifier, data)
                let tzif_id = |r: &Recipe| match r {
                    Recipe::Tzif(n) | Recipe::Db(n) => Some((n.clone(), n.clone())),
                    Recipe::TzifAs(id, n) => Some((id.clone(), n.clone())),
                    _ => None,
                };
                let same_bytes = match (tzif_id(&m.zones[*za].recipe), tzif_id(&m.zones[*zb].recipe)) {
                    (Some(x), Some(y)) => x == y,
                    _ => false,
                };
                if ab != (same_value || same_bytes) {
                    cx.violation("equality-differs-from-value-identity", &case, || format!("{}", same_value || same_bytes), || format!("{} for {:?} / {:?}", ab, m.zones[*za].recipe, m.zones[*zb].recipe));
                    ok = false;
                    break;
                }
            }
            9 if threads && !used.is_empty() => {
                // share with threads: each clones, queries, drops; one thread takes a clone by value and moves it back
                let i = *r.pick(&used);
                let (zid, h) = m.slots[i].as_ref().unwrap();
                let tz = h.handles()[0];
                let expect = m.zones[*zid].answers.clone();
                let nthreads = r.range(2, 4) as usize;
                let iters = r.range(1, 6);
                let bad = std::sync::atomic::AtomicU64::new(0);
                let moved = tz.clone();
                let back = std::thread::scope(|s| {
                    let mut hs = Vec::new();
                    for t in 0..nthreads {
                        let (expect, bad) = (&expect, &bad);
                        hs.push(s.spawn(move || {
                            for _ in 0..iters {
                                let c = tz.clone();
                                if ask(&c) != *expect || ask(tz) != *expect || c != *tz {
                                    bad.fetch_add(1, std::sync::atomic::Ordering::SeqCst);
                                }
                                if t % 2 == 0 {
                                    std::thread::yield_now();
                                }
                                drop(c);
                            }
                        }));
                    }
                    let (expect, bad) = (&expect, &bad);
                    let owner = s.spawn(move || {
                        if ask(&moved) != *expect {
                            bad.fetch_add(1, std::sync::atomic::Ordering::SeqCst);
                        }
                        moved
                    });
                    for h in hs {
                        let _ = h.join();
                    }
                    owner.join().ok()
                });
                what = format!("sharing zone #{} with {} threads", zid, nthreads);
                cx.eval(nthreads as u64 * iters as u64);
                if bad.load(std::sync::atomic::Ordering::SeqCst) > 0 || back.is_none() {
                    cx.violation("threads-observe-different-answers", &case, || format!("{:?}", expect), || format!("{} mismatches", bad.load(std::sync::atomic::Ordering::SeqCst)));
                    ok = false;
                    break;
                }
                drop(back);
            }
            _ => {
                // query through a derived value: a Zoned built from the handle and arithmetic on it
                if used.is_empty() {
                    continue;
                }
                let i = *r.pick(&used);
                let (zid, h) = m.slots[i].as_ref().unwrap();
                let tz = h.handles()[0];
                let z = Zoned::new(Timestamp::new(1_720_000_000, 0).unwrap(), tz.clone());
                let z2 = z.checked_add(jiff::Span::new().hours(r.range(-5000, 5000))).ok();
                let off = z2.as_ref().map(|z| z.offset().seconds());
                let expect_tz_same = z2.as_ref().map_or(true, |z| z.time_zone() == tz);
                what = format!("derived Zoned of zone #{}", zid);
                cx.eval(1);
                if !expect_tz_same {
                    cx.violation("derived-zoned-has-another-zone", &case, || format!("{:?}", m.zones[*zid].recipe), || format!("{:?}", off));
                    ok = false;
                    break;
                }
                drop(z2);
                drop(z);
            }
        }
        if !check_all(cx, &m, &case, &what) {
            ok = false;
            break;
        }
    }
    // drop everything that is left, one by one
    if ok {
        for i in 0..m.slots.len() {
            if let Some((zid, h)) = m.slots[i].take() {
                m.zones[zid].model_count -= h.count();
                #[cfg(feature = "allocmon")]
                mon::set_model_count(zid, m.zones[zid].model_count);
                drop(h);
                if !check_all(cx, &m, &case, &format!("final drop of slot {}", i)) {
                    ok = false;
                    break;
                }
            }
        }
    }
    cx.count("program_steps", m.steps);
    cx.count("zones_created", m.zones.len() as u64);
    cx.count("heap_zones_created", m.zones.iter().filter(|z| z.heap).count() as u64);
    #[cfg(feature = "allocmon")]
    {
        cx.count("footprint_blocks_tracked", m.zones.iter().map(|z| z.footprint as u64).sum());
        mon::enable(false);
    }
    // leave nothing behind for leak checkers
    m.slots.clear();
    ok
}

fn check_fixed(cx: &mut Ctx, o: i32) {
    cx.eval(1);
    let res = guard(|| {
        let off = Offset::from_seconds(o).ok()?;
        let tz = TimeZone::fixed(off);
        let c = tz.clone();
        let a = ask(&tz);
        let other = TimeZone::fixed(Offset::from_seconds(if o < 93599 { o + 1 } else { o - 1 }).ok()?);
        Some((tz.to_fixed_offset().ok().map(|x| x.seconds()), a, c == tz, tz == tz, tz == other, other == tz, strong(&tz)))
    });
    let case = || format!("fixed|{}", o);
    match res {
        Err(p) => cx.violation(&format!("fixed-offset-panic@{}", p.loc()), case, || "no panic".into(), || p.what.clone()),
        Ok(None) => cx.violation("fixed-offset-rejected", case, || "Ok".into(), || "Err".into()),
        Ok(Some((f, a, ceq, refl, ne1, ne2, st))) => {
            if f != Some(o) || a.offsets != [o; 4] {
                cx.violation("fixed-offset-not-reproduced", case, || format!("{}", o), || format!("to_fixed_offset {:?}, to_offset {:?}", f, a.offsets));
            } else if !ceq || !refl || ne1 || ne2 {
                cx.violation("fixed-offset-equality", case, || "clone == original, reflexive, != neighbour".into(), || format!("{} {} {} {}", ceq, refl, ne1, ne2));
            } else if st.is_some() || (cfg!(jiff_verif) && a.tag != 3 && o != 0) {
                cx.violation("fixed-offset-representation", case, || "tag 3, no reference count".into(), || format!("tag {} strong {:?}", a.tag, st));
            }
        }
    }
}

pub fn run(cx: &mut Ctx) {
    if let Some(case) = cx.case.clone() {
        let p: Vec<&str> = case.split('|').collect();
        match p[0] {
            "prog" => {
                let seed = p.get(1).and_then(|x| x.parse().ok()).unwrap_or(0);
                let steps = p.get(2).and_then(|x| x.parse().ok()).unwrap_or(200);
                let ok = run_program(cx, seed, steps, p.get(3) == Some(&"1"));
                println!("replay {}: held={}", case, ok);
            }
            "fixed" => check_fixed(cx, p.get(1).and_then(|x| x.parse().ok()).unwrap_or(0)),
            _ => cx.inconclusive("bad case"),
        }
        return;
    }
    // deliberate faults, to show by hand that the sanitizer stages are alive (never part of a registered command)
    match cx.opt("inject") {
        Some("leak") => std::mem::forget(TimeZone::posix(POSIX[0]).unwrap()),
        Some("double_drop") => {
            let tz = TimeZone::posix(POSIX[1]).unwrap();
            let dup = unsafe { std::ptr::read(&tz) };
            drop(dup);
            println!("after a double drop: {:?}", ask(&tz).offsets);
        }
        _ => {}
    }
    let mut r = Rng::new(cx.shard_seed());
    let small = cfg!(miri) || cx.opt("small").is_some();
    // all fixed offsets (a stride under the slow tools), always including the boundaries and the small values
    let stride = cx.opt_u64("fixed_stride", if small { 97 } else { 1 }) as i64;
    let mut k = 0u64;
    let mut o = -93599i64;
    while o <= 93599 {
        if cx.mine(k) {
            check_fixed(cx, o as i32);
        }
        k += 1;
        o += stride;
    }
    if cx.shard == 0 {
        for o in [-93599, -93598, -1, 0, 1, 15, 16, 17, -15, -16, -17, 93598, 93599, 3600, -3600] {
            check_fixed(cx, o);
        }
    }
    cx.count("fixed_offsets", k / cx.nshards);
    // warm-up: one-time lazy initialisations (global tables, thread locals) must not be mistaken for a zone's footprint
    {
        let db = TimeZoneDatabase::bundled();
        for recipe in [Recipe::Utc, Recipe::Fixed(5), Recipe::Posix(POSIX[0].into()), Recipe::Tzif(NAMES[0].into()), Recipe::Db(NAMES[0].into()), Recipe::Db(NAMES[1].into()), Recipe::Static(NAMES[0].into())] {
            if let Some(tz) = make(&recipe, &db) {
                let _ = ask(&tz);
                let z = Zoned::new(Timestamp::UNIX_EPOCH, tz.clone());
                let _ = z.checked_add(jiff::Span::new().hours(5)).map(|z| z.to_string());
            }
        }
    }
    // self-test of the allocator monitor: a deliberately dropped duplicate handle and a deliberately leaked handle
    #[cfg(feature = "allocmon")]
    {
        mon::reset();
        mon::enable(true);
        let (name, bytes) = jiff_tzdb::get(NAMES[0]).unwrap();
        mon::begin_record();
        let tz = TimeZone::tzif(name, bytes).unwrap();
        mon::set_model_count(0, 1);
        let blocks = mon::end_record(0);
        // SAFETY (of the test): the duplicate is dropped while the monitor believes a handle is alive; the monitor
        // withholds the frees, so `tz` stays valid; `tz` itself is then forgotten.
        let dup = unsafe { std::ptr::read(&tz) };
        drop(dup);
        let errs = mon::take_errors();
        let still = ask(&tz).name.is_some();
        std::mem::forget(tz);
        mon::begin_record();
        let leaked = TimeZone::posix(POSIX[0]).unwrap();
        mon::set_model_count(1, 1);
        let b2 = mon::end_record(1);
        std::mem::forget(leaked);
        mon::set_model_count(1, 0);
        let leak_seen = mon::live_blocks(1) == b2 as i64 && b2 > 0;
        mon::enable(false);
        mon::reset();
        if blocks == 0 || errs.is_empty() || !errs[0].starts_with("premature") || !still || !leak_seen {
            cx.inconclusive(format!("allocator monitor self-test failed: footprint {} errors {:?} leak seen {}", blocks, errs, leak_seen));
            return;
        }
        cx.note(format!("allocator monitor self-test: premature free of a {}-block zone caught ({} reports), leak of a {}-block zone caught", blocks, errs.len(), b2));
    }
    let programs = cx.opt_u64("programs", cx.budget(4000, 400_000));
    let steps = cx.opt_u64("steps", if small { 60 } else { 200 });
    let threads = cx.opt("no_threads").is_none();
    let mut failed = 0;
    for i in 0..programs {
        let seed = hash_mix(r.next(), i);
        if !run_program(cx, seed, steps, threads) {
            failed += 1;
            if failed >= 3 {
                break;
            }
        }
        cx.nontrivial(hash64(&seed.to_le_bytes()));
        cx.count("programs", 1);
    }
    cx.sample(|| format!("programs of up to {} steps over 12 slots; allocator monitor {}; strong-count hook {}; static zones {}", steps, cfg!(feature = "allocmon"), cfg!(jiff_verif), cfg!(feature = "statictz")));
}

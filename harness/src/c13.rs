//! C13 — every Zoned value is internally consistent with its time zone,
//! whatever sequence of public operations produced it.

use crate::arith::{self, unit_of, MSpan, MODES};
use crate::c02::{ts_from_ns, MAX_NS, MIN_NS};
use crate::c06::zoned_invariant;
use crate::rep::{guard, Ctx};
use crate::rng::{hash64, Rng};
use crate::tzmon::{self};
use crate::zones::{self, ZoneCase};
use jiff::civil::Weekday;
use jiff::tz::{Disambiguation, Offset, OffsetConflict};
use jiff::{Zoned, ZonedRound};
use std::collections::hash_map::DefaultHasher;
use std::hash::{Hash, Hasher};

const NS: i128 = 1_000_000_000;
pub const N_OPS: u64 = 22;

fn hash_of(z: &Zoned) -> u64 {
    let mut h = DefaultHasher::new();
    z.hash(&mut h);
    h.finish()
}

/// Apply operation `op` (with its own seeded parameters) to `cur`.
/// Returns (name, Some(new value)) or (name, None) when the operation
/// reports an error; `zi` may change when the zone changes.
fn apply(op: u64, r: &mut Rng, zs: &[&ZoneCase], zi: &mut usize, cur: &Zoned) -> (&'static str, Option<Zoned>) {
    let span = |r: &mut Rng| -> Option<jiff::Span> {
        let mut s = MSpan::zero();
        let sign = if r.chance(1, 2) { 1 } else { -1 };
        match r.below(6) {
            0 => s.u[arith::DAY] = sign * r.range(1, 40),
            1 => s.u[arith::HOUR] = sign * r.range(1, 60),
            2 => s.u[arith::MONTH] = sign * r.range(1, 14),
            3 => {
                s.u[arith::YEAR] = sign * r.range(0, 3);
                s.u[arith::DAY] = sign * r.range(0, 3);
                s.u[arith::MIN] = sign * r.range(0, 90);
                s.u[arith::NANO] = sign * r.range(0, 1_500_000_000);
            }
            4 => s.u[arith::WEEK] = sign * r.range(1, 6),
            _ => s.u[arith::SEC] = sign * r.range(1, 100_000),
        }
        s.to_jiff().ok()
    };
    let wd = |r: &mut Rng| Weekday::from_monday_one_offset(r.range(1, 7) as i8).unwrap();
    match op {
        0 => ("checked_add", span(r).and_then(|s| cur.checked_add(s).ok())),
        1 => ("checked_sub", span(r).and_then(|s| cur.checked_sub(s).ok())),
        2 => ("saturating_add", span(r).map(|s| cur.saturating_add(s))),
        3 => ("saturating_sub", span(r).map(|s| cur.saturating_sub(s))),
        4 => {
            let unit = *r.pick(&[6usize, 5, 5, 4, 4, 3, 3, 2, 1, 0]);
            let inc = if unit == 6 { 1 } else { *r.pick(&[1i64, 2, 5, 10, 15, 20, 30, 3, 4, 6, 12]) };
            let mode = *r.pick(&MODES);
            ("round", cur.round(ZonedRound::new().smallest(unit_of(unit)).increment(inc).mode(mode.to_jiff())).ok())
        }
        5 => {
            let w = cur.with();
            let w = match r.below(7) {
                0 => w.day(r.range(1, 31) as i8),
                1 => w.hour(r.range(0, 23) as i8),
                2 => w.minute(r.range(0, 59) as i8),
                3 => w.month(r.range(1, 12) as i8),
                4 => w.year((cur.year() as i64 + r.range(-2, 2)).clamp(-9999, 9999) as i16),
                5 => w.subsec_nanosecond(r.range(0, 999_999_999) as i32),
                _ => w.day_of_year(r.range(1, 366) as i16),
            };
            ("with().build", w.build().ok())
        }
        6 => ("start_of_day", cur.start_of_day().ok()),
        7 => ("end_of_day", cur.end_of_day().ok()),
        8 => ("tomorrow", cur.tomorrow().ok()),
        9 => ("yesterday", cur.yesterday().ok()),
        10 => ("first_of_month", cur.first_of_month().ok()),
        11 => ("last_of_month", cur.last_of_month().ok()),
        12 => ("first_of_year", cur.first_of_year().ok()),
        13 => ("last_of_year", cur.last_of_year().ok()),
        14 => ("nth_weekday", cur.nth_weekday(*r.pick(&[1, -1, 2, -2, 5, -5]), wd(r)).ok()),
        15 => ("nth_weekday_of_month", cur.nth_weekday_of_month(*r.pick(&[1, -1, 2, 3, 4, 5, -5]), wd(r)).ok()),
        16 => {
            let nz = r.below(zs.len() as u64) as usize;
            let out = cur.with_time_zone(zs[nz].tz.clone());
            *zi = nz;
            ("with_time_zone", Some(out))
        }
        17 => ("DateTime::to_zoned", cur.datetime().to_zoned(cur.time_zone().clone()).ok()),
        18 => {
            // print -> parse (needs the zone name to be known to the global database)
            if zs[*zi].src == "sys" {
                ("print->parse", cur.to_string().parse::<Zoned>().ok())
            } else {
                ("print->parse", None)
            }
        }
        19 => ("Zoned::new", Some(Zoned::new(cur.timestamp(), cur.time_zone().clone()))),
        20 => {
            // with() + explicit offset + conflict strategy + disambiguation
            let off = if r.chance(1, 2) { cur.offset() } else { Offset::from_seconds(r.range(-50_000, 50_000) as i32).unwrap() };
            let conflict = *r.pick(&[OffsetConflict::AlwaysOffset, OffsetConflict::AlwaysTimeZone, OffsetConflict::PreferOffset, OffsetConflict::Reject]);
            let dis = *r.pick(&[Disambiguation::Compatible, Disambiguation::Earlier, Disambiguation::Later, Disambiguation::Reject]);
            ("with().offset().build", cur.with().hour(r.range(0, 23) as i8).offset(off).offset_conflict(conflict).disambiguation(dis).build().ok())
        }
        _ => {
            if zs[*zi].src == "sys" && (1000..=9999).contains(&cur.year()) {
                let fmt = "%Y-%m-%dT%H:%M:%S%.f%:z[%Q]";
                let s = cur.strftime(fmt).to_string();
                ("strftime->strptime", Zoned::strptime(fmt, &s).ok())
            } else {
                ("strftime->strptime", None)
            }
        }
    }
}

pub fn run_sequence(cx: &mut Ctx, zs: &[&ZoneCase], start_zone: usize, start: i128, seed: u64, len: usize) {
    let mut r = Rng::new(seed);
    let Some(ts) = ts_from_ns(start) else { return };
    let mut zi = start_zone;
    let mut cur = Zoned::new(ts, zs[zi].tz.clone());
    let case = || format!("seq|{}|{}|{}|{}|{}", zs.iter().map(|z| z.id.clone()).collect::<Vec<_>>().join(";"), start_zone, start, seed, len);
    zoned_invariant(cx, zs[zi], &cur, "Zoned::new", &case);
    let mut trace: Vec<&'static str> = Vec::new();
    for _ in 0..len {
        let op = r.below(N_OPS);
        let before_ts = cur.timestamp();
        let mut nzi = zi;
        let res = guard(|| apply(op, &mut r, zs, &mut nzi, &cur));
        cx.eval(1);
        match res {
            Err(p) => {
                cx.violation(&format!("sequence-op/panic@{}", p.loc()), case, || format!("after {:?}", trace), || p.what.clone());
                return;
            }
            Ok((name, out)) => {
                trace.push(name);
                cx.count(&format!("op:{}", name), 1);
                if let Some(nv) = out {
                    zi = nzi;
                    // D10 zones: no verdict beyond the explicit part
                    let sec = nv.timestamp().as_second();
                    if !(zs[zi].model.d10_zone() && sec > zs[zi].model.rule_from().saturating_sub(800 * 86400)) {
                        zoned_invariant(cx, zs[zi], &nv, name, &case);
                    }
                    if name == "with_time_zone" && nv.timestamp() != before_ts {
                        cx.violation("with_time_zone/changed-the-instant", case, || format!("{}", before_ts), || format!("{}", nv.timestamp()));
                    }
                    // (whether print->parse preserves the instant is C09's business; here
                    // only the consistency of the parsed value matters)
                    if name == "Zoned::new" && nv.timestamp() != before_ts {
                        cx.violation("Zoned::new/changed-the-instant", case, || format!("{}", before_ts), || format!("{}", nv.timestamp()));
                    }
                    cur = nv;
                }
            }
        }
    }
    // equality, ordering and hashing depend on the instant only
    let other = zs[(zi + 1) % zs.len()];
    let r2 = guard(|| {
        let w = cur.with_time_zone(other.tz.clone());
        let later = cur.timestamp().as_nanosecond() < MAX_NS - 5;
        let bigger = if later { cur.checked_add(jiff::Span::new().nanoseconds(1)).ok().map(|x| x.with_time_zone(other.tz.clone())) } else { None };
        (cur == w, cur.cmp(&w) == std::cmp::Ordering::Equal, hash_of(&cur) == hash_of(&w), w.timestamp() == cur.timestamp(), bigger.map(|b| (cur < b, cur != b, b.cmp(&cur) == std::cmp::Ordering::Greater)))
    });
    cx.eval(4);
    match r2 {
        Err(p) => cx.violation(&format!("eq-ord-hash/panic@{}", p.loc()), case, || "no panic".into(), || p.what.clone()),
        Ok((eq, ord, h, inst, bigger)) => {
            if !eq || !ord || !h || !inst {
                cx.violation("eq-ord-hash/depends-on-more-than-the-instant", case, || "same instant in another zone: ==, cmp Equal, equal hash".into(), || format!("eq={} cmp_equal={} hash_equal={} same_instant={}", eq, ord, h, inst));
            }
            if let Some((lt, ne, gt)) = bigger {
                if !lt || !ne || !gt {
                    cx.violation("eq-ord-hash/order-disagrees-with-instants", case, || "1ns later in another zone is greater".into(), || format!("lt={} ne={} gt={}", lt, ne, gt));
                }
            }
        }
    }
    cx.nontrivial(hash64(format!("{:?}|{}|{}", trace, start, zs[start_zone].id).as_bytes()));
    if seed % 5000 == 0 {
        cx.sample(|| format!("start {} in {} then {:?}", start, zs[start_zone].id, trace));
    }
}

pub fn run(cx: &mut Ctx) {
    if let Some(case) = cx.case.clone() {
        return replay(cx, &case);
    }
    let mut r = Rng::new(cx.shard_seed());
    let years = zones::probe_years(&mut Rng::new(cx.seed), false);
    let zs = crate::c04::gather_zones(cx, 100, 1500);
    let cor = tzmon::corroborate_all(&zs, &cx.work, &years);
    let good: Vec<&ZoneCase> = zs.iter().zip(cor.iter()).filter(|(_, c)| c.ok()).map(|(z, _)| z).collect();
    cx.count("zones", good.len() as u64);
    if good.len() < 2 {
        cx.inconclusive("fewer than two corroborated zones in this shard");
        return;
    }
    let per_zone = if cx.thorough { 6000 } else { 400 };
    for (i, z) in good.iter().enumerate() {
        let changes = z.model.changes(zones::TS_MIN, zones::TS_MAX, &years);
        for k in 0..per_zone {
            let start: i128 = if !changes.is_empty() && k % 5 != 4 {
                let c = *r.pick(&changes);
                ((c as i128 + r.range(-100_000, 100_000) as i128) * NS + *r.pick(&[0i64, 1, 999_999_999, 500_000_000]) as i128).clamp(MIN_NS, MAX_NS)
            } else {
                match r.below(6) {
                    0 => MIN_NS + r.below(300_000_000_000_000) as i128,
                    1 => MAX_NS - r.below(300_000_000_000_000) as i128,
                    _ => r.range128(MIN_NS, MAX_NS),
                }
            };
            // the sequence may hop between this zone and two others
            let o1 = good[(i + 1 + r.below(good.len() as u64 - 1) as usize) % good.len()];
            let o2 = good[(i + 1 + r.below(good.len() as u64 - 1) as usize) % good.len()];
            let set = [*z, o1, o2];
            let len = 1 + r.below(8) as usize;
            run_sequence(cx, &set, 0, start, r.next(), len);
            cx.count("sequences", 1);
        }
    }
}

fn replay(cx: &mut Ctx, case: &str) {
    let p: Vec<&str> = case.split('|').collect();
    if p.len() != 6 {
        return cx.inconclusive("bad case");
    }
    let mut zs = Vec::new();
    for id in p[1].split(';') {
        match zones::resolve(id, &cx.work) {
            Ok(z) => zs.push(z),
            Err(e) => return cx.inconclusive(e),
        }
    }
    let refs: Vec<&ZoneCase> = zs.iter().collect();
    run_sequence(cx, &refs, p[2].parse().unwrap_or(0), p[3].parse().unwrap_or(0), p[4].parse().unwrap_or(0), p[5].parse().unwrap_or(1));
    println!("replay {}: evaluations={} violations={}", case, cx.evals, cx.viol_total);
}

//! C14 — transition iterators yield exactly the instants where the zone's
//! offset information changes.

use crate::rep::{guard, Ctx};
use crate::rng::{hash64, hash_mix, Rng};
use crate::tzmon::{self, floor_sec, jiff_info, ts_floor, Corrob};
use crate::tzref::Info;
use crate::zones::{self, ZoneCase, TS_MAX, TS_MIN};
use jiff::Timestamp;

const STEP_CAP: usize = 100_000;

struct Yield {
    sec: i64,
    ns: i32,
    info: Info,
}

fn collect(z: &ZoneCase, start: Timestamp, forward: bool, max_steps: usize) -> Result<(Vec<Yield>, bool), crate::rep::Panicked> {
    guard(|| {
        let mut v = Vec::new();
        let mut exhausted = true;
        if forward {
            for t in z.tz.following(start) {
                v.push(Yield { sec: t.timestamp().as_second(), ns: t.timestamp().subsec_nanosecond(), info: Info { utoff: t.offset().seconds(), isdst: t.dst().is_dst(), abbr: t.abbreviation().to_string() } });
                if v.len() >= max_steps {
                    exhausted = false;
                    break;
                }
            }
        } else {
            for t in z.tz.preceding(start) {
                v.push(Yield { sec: t.timestamp().as_second(), ns: t.timestamp().subsec_nanosecond(), info: Info { utoff: t.offset().seconds(), isdst: t.dst().is_dst(), abbr: t.abbreviation().to_string() } });
                if v.len() >= max_steps {
                    exhausted = false;
                    break;
                }
            }
        }
        (v, exhausted)
    })
}

/// `changes`: sorted model info-change instants of the zone (all years).
/// `verdict_hi`: for D10 zones, instants >= this give no verdict.
pub fn check_traversal(cx: &mut Ctx, z: &ZoneCase, changes: &[i64], start: (i64, u32), forward: bool, max_steps: usize, verdict_hi: i64) {
    let Some(st) = ts_floor(start.0, start.1) else { return };
    let dir = if forward { "following" } else { "preceding" };
    let case = || format!("{}|{}|{}|{}|{}", z.id, start.0, start.1, if forward { "f" } else { "p" }, max_steps);
    let fixed = z.src == "fixed";
    cx.eval(1);
    let (ys, exhausted) = match collect(z, st, forward, max_steps) {
        Ok(x) => x,
        Err(p) => {
            cx.violation(&format!("{}/panic@{}", dir, p.loc()), case, || "no panic".into(), || p.what.clone());
            return;
        }
    };
    if max_steps >= STEP_CAP && !exhausted {
        cx.violation(&format!("{}/does-not-terminate[{}]", dir, z.src), case, || format!("fewer than {} transitions in a finite range", STEP_CAP), || "step cap reached".into());
        return;
    }
    cx.count("yields", ys.len() as u64);
    // in the judged region only
    let judged = |sec: i64| sec < verdict_hi;
    // 1. strict monotonicity, strictly after/before the start
    let mut prev: (i64, i64) = (start.0, start.1 as i64); // floor representation
    for (i, y) in ys.iter().enumerate() {
        let cur = if y.ns < 0 { (y.sec - 1, y.ns as i64 + 1_000_000_000) } else { (y.sec, y.ns as i64) };
        let ok = if forward { cur > prev } else { cur < prev };
        if !ok {
            cx.violation(&format!("{}/not-strictly-monotone[{}]", dir, z.src), case, || format!("yield #{} {} {:?} than {:?}", i, if forward { "later" } else { "earlier" }, cur, prev), || format!("{:?}", cur));
            return;
        }
        prev = cur;
        if y.ns != 0 && judged(y.sec) {
            cx.violation(&format!("{}/fractional-transition[{}]", dir, z.src), case, || "whole second".into(), || format!("{}.{}", y.sec, y.ns));
        }
    }
    // 2. each yield reports what is in force from that instant on
    for y in ys.iter() {
        if !judged(y.sec) {
            continue;
        }
        cx.eval(1);
        let m = z.model.info(y.sec);
        let same = y.info.utoff == m.utoff && y.info.isdst == m.isdst && (fixed || y.info.abbr == m.abbr);
        if !same {
            cx.violation(&format!("{}/yield-info-differs-from-zone-data[{}]", dir, z.src), case, || format!("{:?} at {}", m, y.sec), || format!("{:?}", y.info));
        }
        if let Some(t) = ts_floor(y.sec, 0) {
            let direct = guard(|| jiff_info(&z.tz, t));
            if let Ok(d) = direct {
                if d != y.info {
                    cx.violation(&format!("{}/yield-info-differs-from-direct-lookup[{}]", dir, z.src), case, || format!("{:?} at {}", d, y.sec), || format!("{:?}", y.info));
                }
            }
        }
        // an extra yield (nothing changes) is counted, not condemned
        if z.model.info(y.sec - 1) == m {
            cx.count("yields_where_nothing_changes", 1);
        }
    }
    // 3. omissions: every model change inside the traversed window is yielded
    let (win_lo, win_hi) = if forward {
        // (start, last yield] or (start, MAX] when exhausted
        let lo = start.0; // changes strictly after the start instant: t > start (t integer, start may have ns)
        let hi = if exhausted { TS_MAX } else { ys.last().map(|y| y.sec).unwrap_or(start.0) };
        (lo, hi)
    } else {
        let hi = start.0; // changes strictly before start
        let lo = if exhausted { TS_MIN } else { ys.last().map(|y| y.sec).unwrap_or(start.0) };
        (lo, hi)
    };
    let yielded: std::collections::HashSet<i64> = ys.iter().map(|y| y.sec).collect();
    let a = changes.partition_point(|&t| t < win_lo);
    let b = changes.partition_point(|&t| t <= win_hi);
    for &t in &changes[a..b] {
        // strictness at the start
        let inside = if forward { t > start.0 || (t == start.0 && false) } else { t < start.0 || (t == start.0 && start.1 > 0) };
        let inside = inside && if forward { t <= win_hi } else { t >= win_lo };
        if !inside || !judged(t) || t <= TS_MIN {
            continue;
        }
        cx.eval(1);
        if !yielded.contains(&t) {
            cx.violation(&format!("{}/omits-a-change[{}]", dir, z.src), case, || format!("transition at {} ({:?} -> {:?})", t, z.model.info(t - 1), z.model.info(t)), || format!("{} yields, none at {}", ys.len(), t));
            return;
        }
    }
    // 4. constant between consecutive yields, by direct lookup on jiff itself
    for w in ys.windows(2) {
        let (a, b) = if forward { (&w[0], &w[1]) } else { (&w[1], &w[0]) };
        if !judged(b.sec) {
            continue;
        }
        if let (Some(ta), Some(tb)) = (ts_floor(a.sec, 0), ts_floor(b.sec - 1, 999_999_999)) {
            if let (Ok(ia), Ok(ib)) = (guard(|| jiff_info(&z.tz, ta)), guard(|| jiff_info(&z.tz, tb))) {
                cx.eval(1);
                if ia != ib {
                    cx.count("segments_with_different_ends", 1);
                    // an un-yielded change inside the segment; confirm with the model
                    if z.model.info(a.sec) != z.model.info(b.sec - 1) {
                        cx.violation(&format!("{}/info-not-constant-between-yields[{}]", dir, z.src), case, || format!("{:?} throughout [{}, {})", ia, a.sec, b.sec), || format!("{:?} just before {}", ib, b.sec));
                    }
                }
            }
        }
    }
    let _ = floor_sec;
}

pub fn check_zone(cx: &mut Ctx, z: &ZoneCase, c: &Corrob, all_years: &[i64], r: &mut Rng, full: bool) {
    if !c.ok() {
        cx.count("zones_uncorroborated_no_verdict", 1);
        return;
    }
    let verdict_hi = if z.model.d10_zone() {
        cx.count("zones_rule_part_skipped_D10", 1);
        z.model.rule_from().saturating_sub(400 * 86400).max(TS_MIN)
    } else {
        i64::MAX
    };
    let changes = z.model.changes(TS_MIN, TS_MAX, all_years);
    let zh = hash64(z.id.as_bytes());
    cx.count("model_changes_total", changes.len() as u64);
    // starts
    let mut starts: Vec<(i64, u32)> = vec![(TS_MIN, 0), (TS_MAX, 0), (TS_MAX, 999_999_999), (0, 0)];
    let n_explicit_like = changes.len();
    let budget = if cx.thorough { 600 } else { 90 };
    let step = (n_explicit_like / budget).max(1);
    let mut picked = 0u64;
    for (i, &t) in changes.iter().enumerate() {
        // always: the first and last few; otherwise strided + seeded
        let special = i < 6 || i + 6 >= changes.len();
        if special || i % step == 0 || r.chance(1, (step as u64 * 4).max(4)) {
            for s in [(t, 0u32), (t - 1, 999_999_999), (t - 1, 500_000_000), (t, 1), (t - 1, 0), (t + 1, 0)] {
                starts.push(s);
            }
            cx.nontrivial(hash_mix(zh, t as u64));
            picked += 1;
        }
    }
    cx.count("changes_used_as_starts", picked);
    if let (Some(&f), Some(&l)) = (changes.first(), changes.last()) {
        starts.push((f - 86400 * 400, 0));
        starts.push((l + 86400 * 400, 0));
    }
    for _ in 0..10 {
        starts.push((r.range(TS_MIN, TS_MAX - 1), r.below(1_000_000_000) as u32));
    }
    starts.retain(|&(s, ns)| s >= TS_MIN && (s < TS_MAX || (s == TS_MAX)) && !(s == TS_MIN && false) && ts_floor(s, ns).is_some());
    let steps = if cx.thorough { 120 } else { 24 };
    for &st in &starts {
        check_traversal(cx, z, &changes, st, true, steps, verdict_hi);
        check_traversal(cx, z, &changes, st, false, steps, verdict_hi);
    }
    cx.count("starts", starts.len() as u64 * 2);
    if full {
        check_traversal(cx, z, &changes, (TS_MIN, 0), true, STEP_CAP, verdict_hi);
        check_traversal(cx, z, &changes, (TS_MAX, 999_999_999), false, STEP_CAP, verdict_hi);
        if let Some(&m) = changes.get(changes.len() / 2) {
            check_traversal(cx, z, &changes, (m - 1, 999_999_999), true, STEP_CAP, verdict_hi);
            check_traversal(cx, z, &changes, (m, 1), false, STEP_CAP, verdict_hi);
        }
        cx.count("zones_traversed_to_exhaustion", 1);
    }
    if let Some(&t) = changes.get(changes.len() / 2) {
        cx.sample(|| format!("{}: {} model changes; e.g. following({}-1ns) must first yield {} ({:?})", z.id, changes.len(), t, t, z.model.info(t)));
    }
    cx.count("zones", 1);
}

pub fn run(cx: &mut Ctx) {
    if let Some(case) = cx.case.clone() {
        return replay(cx, &case);
    }
    let mut r = Rng::new(cx.shard_seed());
    let years = zones::probe_years(&mut Rng::new(cx.seed), false);
    let all_years: Vec<i64> = (-9999..=9999).collect();
    let zs = crate::c04::gather_zones(cx, 200, 3000);
    let cor = tzmon::corroborate_all(&zs, &cx.work, &years);
    let full_stride = if cx.thorough { 1 } else { cx.opt_u64("full_stride", 5) };
    for (i, (z, c)) in zs.iter().zip(cor.iter()).enumerate() {
        check_zone(cx, z, c, &all_years, &mut r, i as u64 % full_stride == 0);
    }
}

fn replay(cx: &mut Ctx, case: &str) {
    let parts: Vec<&str> = case.rsplitn(5, '|').collect();
    if parts.len() != 5 {
        cx.inconclusive("bad case");
        return;
    }
    let steps: usize = parts[0].parse().unwrap_or(24);
    let forward = parts[1] == "f";
    let ns: u32 = parts[2].parse().unwrap_or(0);
    let sec: i64 = parts[3].parse().unwrap_or(0);
    match zones::resolve(parts[4], &cx.work) {
        Ok(z) => {
            let all_years: Vec<i64> = (-9999..=9999).collect();
            let changes = z.model.changes(TS_MIN, TS_MAX, &all_years);
            if let Some(st) = ts_floor(sec, ns) {
                if let Ok((ys, ex)) = collect(&z, st, forward, steps.min(12)) {
                    println!("first yields from {}: {:?} exhausted={}", st, ys.iter().map(|y| (y.sec, y.info.utoff)).collect::<Vec<_>>(), ex);
                }
                let i = changes.partition_point(|&t| t < sec);
                println!("model changes around start: {:?}", &changes[i.saturating_sub(3)..(i + 4).min(changes.len())]);
            }
            check_traversal(cx, &z, &changes, (sec, ns), forward, steps, i64::MAX);
        }
        Err(e) => cx.inconclusive(e),
    }
}

//! C10 — rounding a datetime yields the correct multiple of the increment
//! for every mode.

use crate::arith::{self, round, unit_of, Mode, MODES, UNIT_NS};
use crate::c02::{ts_from_ns, MAX_NS, MIN_NS};
use crate::cal::{self, Civ, NS_DAY};
use crate::gen::{self, nod_of_time, sdur_of_ns, time_of_nod, SD_MAX_NS, SD_MIN_NS};
use crate::rep::{guard, Ctx};
use crate::rng::{hash64, Rng};
use crate::tzmon::{self, civ_of, dt_of};
use crate::zones::{self, ZoneCase};
use jiff::civil::{DateTimeRound, TimeRound};
use jiff::tz::{Offset, OffsetRound};
use jiff::{SignedDurationRound, TimestampRound, Zoned, ZonedRound};

/// next-unit size for time units (what a legal increment must divide and stay below)
const NEXT: [i64; 6] = [1000, 1000, 1000, 60, 60, 24];
/// units per civil day (Timestamp rule: must divide, may equal)
const PER_DAY: [i64; 6] = [86_400_000_000_000, 86_400_000_000, 86_400_000, 86_400, 1_440, 24];

fn legal_time(unit: usize, inc: i64) -> bool {
    unit <= 5 && inc > 0 && inc < NEXT[unit] && NEXT[unit] % inc == 0
}
fn legal_datetime(unit: usize, inc: i64) -> bool {
    if unit == 6 {
        inc == 1
    } else {
        legal_time(unit, inc)
    }
}
fn legal_timestamp(unit: usize, inc: i64) -> bool {
    unit <= 5 && inc > 0 && inc <= PER_DAY[unit] && PER_DAY[unit] % inc == 0
}

fn gen_inc(r: &mut Rng, unit: usize, per_day: bool) -> i64 {
    let base = if unit <= 5 {
        if per_day {
            PER_DAY[unit]
        } else {
            NEXT[unit]
        }
    } else {
        2
    };
    match r.below(12) {
        0 => 0,
        1 => -1,
        2 => i64::MIN,
        3 => i64::MAX,
        4 => base,
        5 => base + 1,
        6 => r.range(1, base.min(5000)), // mostly non-divisors
        7 => -r.range(1, 100),
        _ => {
            // a divisor
            let mut ds: Vec<i64> = Vec::new();
            let lim = base.min(100_000);
            for d in 1..=lim {
                if base % d == 0 {
                    ds.push(d);
                    if base / d > lim {
                        ds.push(base / d);
                    }
                }
                if ds.len() > 400 {
                    break;
                }
            }
            *r.pick(&ds)
        }
    }
}

/// A value near an interesting point for (unit, inc): exact multiple,
/// midpoint, +-1ns around both.
fn near_multiple(r: &mut Rng, v: i128, step: i128) -> i128 {
    if step <= 0 {
        return v;
    }
    let base = v.div_euclid(step) * step;
    match r.below(8) {
        0 => base,
        1 => base + 1,
        2 => base - 1,
        3 => base + step / 2,
        4 => base + step / 2 + 1,
        5 => base + step / 2 - 1,
        6 => base + step - 1,
        _ => v,
    }
}

fn tsround(unit: usize, inc: i64, mode: Mode) -> TimestampRound {
    TimestampRound::new().smallest(unit_of(unit)).increment(inc).mode(mode.to_jiff())
}

pub fn check_timestamp(cx: &mut Ctx, t: i128, unit: usize, inc: i64, mode: Mode) {
    let Some(ts) = ts_from_ns(t) else { return };
    let case = || format!("ts|{}|{}|{}|{}", t, unit, inc, mode.idx());
    cx.eval(1);
    let got = guard(|| ts.round(tsround(unit, inc, mode)).ok().map(|x| x.as_nanosecond()));
    let legal = legal_timestamp(unit, inc);
    let exp = if legal {
        let r = round(t, inc as i128 * UNIT_NS[unit], mode);
        if (MIN_NS..=MAX_NS).contains(&r) {
            Some(r)
        } else {
            None
        }
    } else {
        None
    };
    match got {
        Err(p) => cx.violation(&format!("Timestamp::round/panic@{}", p.loc()), case, || format!("{:?}", exp), || p.what.clone()),
        Ok(g) => {
            if g != exp {
                let class = if !legal { "Timestamp::round/illegal-increment-accepted" } else if exp.is_none() { "Timestamp::round/out-of-range-not-rejected" } else { "Timestamp::round/value" };
                cx.violation(class, case, || format!("{:?}", exp), || format!("{:?}", g));
            }
        }
    }
}

pub fn check_time(cx: &mut Ctx, nod: i64, unit: usize, inc: i64, mode: Mode) {
    let t = time_of_nod(nod);
    let case = || format!("time|{}|{}|{}|{}", nod, unit, inc, mode.idx());
    cx.eval(1);
    let got = guard(|| t.round(TimeRound::new().smallest(unit_of(unit)).increment(inc).mode(mode.to_jiff())).ok().map(nod_of_time));
    let legal = legal_time(unit, inc);
    let exp = if legal { Some((round(nod as i128, inc as i128 * UNIT_NS[unit], mode).rem_euclid(NS_DAY)) as i64) } else { None };
    match got {
        Err(p) => cx.violation(&format!("Time::round/panic@{}", p.loc()), case, || format!("{:?}", exp), || p.what.clone()),
        Ok(g) => {
            if g != exp {
                cx.violation(if legal { "Time::round/value" } else { "Time::round/illegal-increment-accepted" }, case, || format!("{:?}", exp), || format!("{:?}", g));
            }
        }
    }
}

/// civil rounding per the statement: round the time of day, carry one day
fn model_dt_round(c: Civ, unit: usize, inc: i64, mode: Mode) -> Option<Civ> {
    let step = if unit == 6 { NS_DAY } else { inc as i128 * UNIT_NS[unit] };
    let r = round(c.nod as i128, step, mode);
    let out = Civ { day: c.day + (r / NS_DAY) as i64, nod: (r % NS_DAY) as i64 };
    if out.in_range() {
        Some(out)
    } else {
        None
    }
}

pub fn check_datetime(cx: &mut Ctx, c: Civ, unit: usize, inc: i64, mode: Mode) {
    let Some(dt) = dt_of(c) else { return };
    let case = || format!("dt|{}|{}|{}|{}|{}", c.day, c.nod, unit, inc, mode.idx());
    cx.eval(1);
    let got = guard(|| dt.round(DateTimeRound::new().smallest(unit_of(unit)).increment(inc).mode(mode.to_jiff())).ok().map(civ_of));
    let legal = legal_datetime(unit, inc);
    let exp = if legal { model_dt_round(c, unit, inc, mode) } else { None };
    match got {
        Err(p) => cx.violation(&format!("DateTime::round/panic@{}", p.loc()), case, || format!("{:?}", exp), || p.what.clone()),
        Ok(g) => {
            if g != exp {
                let class = if !legal { "DateTime::round/illegal-increment-accepted" } else if exp.is_none() { "DateTime::round/out-of-range-not-rejected" } else { "DateTime::round/value" };
                cx.violation(class, case, || format!("{:?}", exp.map(|e| (e.ymd(), e.hms()))), || format!("{:?}", g.map(|e| (e.ymd(), e.hms()))));
            }
        }
    }
}

pub fn check_sdur(cx: &mut Ctx, v: i128, unit: usize, inc: i64, mode: Mode) {
    let d = sdur_of_ns(v);
    let case = || format!("sd|{}|{}|{}|{}", v, unit, inc, mode.idx());
    cx.eval(1);
    let got = guard(|| d.round(SignedDurationRound::new().smallest(unit_of(unit)).increment(inc).mode(mode.to_jiff())).ok().map(|x| x.as_nanos()));
    match got {
        Err(p) => cx.violation(&format!("SignedDuration::round/panic@{}", p.loc()), case, || "Ok|Err".into(), || p.what.clone()),
        Ok(g) => {
            if unit > 5 {
                if g.is_some() {
                    cx.violation("SignedDuration::round/calendar-unit-accepted", case, || "Err".into(), || format!("{:?}", g));
                }
                return;
            }
            if inc <= 0 {
                // undocumented: no verdict on the value, only "no panic"
                cx.count("sdur_nonpositive_increment_no_verdict", 1);
                return;
            }
            let step = (inc as i128).checked_mul(UNIT_NS[unit]);
            let exp = step.map(|s| round(v, s, mode)).filter(|r| (SD_MIN_NS..=SD_MAX_NS).contains(r));
            // the documentation of SignedDurationRound::increment says that
            // increments not dividing the next unit are errors while the
            // implementation accepts them: either behaviour is tolerated
            if g.is_none() && !legal_time(unit, inc) {
                cx.count("sdur_nondivisor_increment_rejected", 1);
                return;
            }
            // a rounded value whose seconds do not fit i64 must be an error
            if g != exp {
                cx.violation(if exp.is_none() { "SignedDuration::round/out-of-range-not-rejected" } else { "SignedDuration::round/value" }, case, || format!("{:?}", exp), || format!("{:?}", g));
            }
        }
    }
}

pub fn check_offset(cx: &mut Ctx, v: i32, unit: usize, inc: i64, mode: Mode) {
    let Ok(o) = Offset::from_seconds(v) else { return };
    let case = || format!("off|{}|{}|{}|{}", v, unit, inc, mode.idx());
    cx.eval(1);
    let got = guard(|| o.round(OffsetRound::new().smallest(unit_of(unit)).increment(inc).mode(mode.to_jiff())).ok().map(|x| x.seconds()));
    match got {
        Err(p) => cx.violation(&format!("Offset::round/panic@{}", p.loc()), case, || "Ok|Err".into(), || p.what.clone()),
        Ok(g) => {
            if !(3..=5).contains(&unit) {
                if g.is_some() {
                    cx.violation("Offset::round/unsupported-unit-accepted", case, || "Err".into(), || format!("{:?}", g));
                }
                return;
            }
            if inc <= 0 {
                cx.count("offset_nonpositive_increment_no_verdict", 1);
                return;
            }
            let step = (inc as i128).checked_mul(UNIT_NS[unit] / 1_000_000_000);
            let exp = step.map(|s| round(v as i128, s, mode)).filter(|r| r.abs() <= 93599).map(|r| r as i32);
            if g.is_none() && !legal_time(unit, inc) {
                cx.count("offset_nondivisor_increment_rejected", 1);
                return;
            }
            if g != exp {
                cx.violation(if exp.is_none() { "Offset::round/out-of-range-not-rejected" } else { "Offset::round/value" }, case, || format!("{:?}", exp), || format!("{:?}", g));
            }
        }
    }
}

/// until() with smallest/increment/mode on time-only types: the result's
/// total equals the exact difference rounded (sign-aware) to the increment.
pub fn check_until(cx: &mut Ctx, kind: u8, a: i128, b: i128, unit: usize, inc: i64, mode: Mode) {
    let case = || format!("until{}|{}|{}|{}|{}|{}", kind, a, b, unit, inc, mode.idx());
    if !legal_time(unit, inc) {
        return;
    }
    let step = inc as i128 * UNIT_NS[unit];
    let exp = round(b - a, step, mode);
    cx.eval(1);
    let got = guard(|| -> Option<i128> {
        let span = if kind == 0 {
            let (ta, tb) = (time_of_nod(a as i64), time_of_nod(b as i64));
            ta.until(jiff::civil::TimeDifference::new(tb).smallest(unit_of(unit)).increment(inc).mode(mode.to_jiff())).ok()?
        } else {
            let (ta, tb) = (ts_from_ns(a)?, ts_from_ns(b)?);
            ta.until(jiff::TimestampDifference::new(tb).smallest(unit_of(unit)).increment(inc).mode(mode.to_jiff())).ok()?
        };
        Some(arith::MSpan::from_jiff(&span).time_ns())
    });
    match got {
        Err(p) => cx.violation(&format!("{}::until(round)/panic@{}", ["Time", "Timestamp"][kind as usize], p.loc()), case, || format!("{}", exp), || p.what.clone()),
        Ok(g) => {
            // for timestamps the rounded difference may exceed the span limits: Err allowed then
            let limit_ok = exp.abs() <= 631_107_417_600i128 * 1_000_000_000 * 2;
            if g != Some(exp) && !(g.is_none() && kind == 1 && !limit_ok) {
                cx.violation(&format!("{}::until(smallest,increment,mode)", ["Time", "Timestamp"][kind as usize]), case, || format!("{}", exp), || format!("{:?}", g));
            }
        }
    }
}

// ---------------------------------------------------------------------------
// Zoned

fn civil_date_at(z: &ZoneCase, t_sec: i64) -> i64 {
    (t_sec + z.model.utoff(t_sec) as i64).div_euclid(86400)
}

/// first instant (seconds) whose civil date is `day`, per the model
pub fn model_start_of_day(z: &ZoneCase, day: i64) -> Option<i64> {
    let m = day * 86400;
    let mut cands: Vec<i64> = Vec::new();
    for o in z.model.offsets() {
        let t = m - o as i64;
        if z.model.utoff(t) == o {
            cands.push(t);
        }
    }
    let (ylo, _, _) = cal::civil_from_days((m - 200_000).div_euclid(86400));
    let (yhi, _, _) = cal::civil_from_days((m + 200_000).div_euclid(86400));
    let years: Vec<i64> = (ylo - 1..=yhi + 1).collect();
    for t in z.model.changes(m - 200_000, m + 200_000, &years) {
        if civil_date_at(z, t) == day && civil_date_at(z, t - 1) < day {
            cands.push(t);
        }
    }
    cands.into_iter().filter(|&t| civil_date_at(z, t) == day).min()
}

/// Known finding D18: civil midnight of `day` lies strictly inside a gap
/// that began before midnight. jiff's start-of-day is then midnight shifted
/// by the gap length instead of the first instant after the gap.
pub fn gap_straddles_midnight(z: &ZoneCase, day: i64) -> bool {
    let m = day * 86400;
    let (ylo, _, _) = cal::civil_from_days((m - 200_000).div_euclid(86400));
    let (yhi, _, _) = cal::civil_from_days((m + 200_000).div_euclid(86400));
    let years: Vec<i64> = (ylo - 1..=yhi + 1).collect();
    for t in z.model.changes(m - 200_000, m + 200_000, &years) {
        let o1 = z.model.utoff(t - 1) as i64;
        let o2 = z.model.utoff(t) as i64;
        if o2 > o1 && t + o1 < m && m < t + o2 {
            return true;
        }
    }
    false
}

pub fn check_zoned(cx: &mut Ctx, z: &ZoneCase, t: i128, unit: usize, inc: i64, mode: Mode) {
    let Some(ts) = ts_from_ns(t) else { return };
    let case = || format!("zoned|{}|{}|{}|{}|{}", z.id, t, unit, inc, mode.idx());
    let zd = Zoned::new(ts, z.tz.clone());
    cx.eval(1);
    let got = guard(|| zd.round(ZonedRound::new().smallest(unit_of(unit)).increment(inc).mode(mode.to_jiff())).ok().map(|x| (x.timestamp().as_nanosecond(), x.offset().seconds(), x.time_zone() == zd.time_zone())));
    let legal = legal_datetime(unit, inc);
    let sec = t.div_euclid(1_000_000_000) as i64;
    let o0 = z.model.utoff(sec);
    let got = match got {
        Err(p) => {
            cx.violation(&format!("Zoned::round/panic@{}", p.loc()), case, || "Ok|Err".into(), || p.what.clone());
            return;
        }
        Ok(g) => g,
    };
    if !legal {
        if got.is_some() {
            cx.violation("Zoned::round/illegal-increment-accepted", case, || "Err".into(), || format!("{:?}", got));
        }
        return;
    }
    let civ = Civ::from_ns(t + o0 as i128 * 1_000_000_000);
    let exp: Option<i128> = if unit == 6 {
        let start = model_start_of_day(z, civ.day);
        let end = model_start_of_day(z, civ.day + 1);
        match (start, end) {
            (Some(s), Some(e)) if e > s => {
                let (s, e) = (s as i128 * 1_000_000_000, e as i128 * 1_000_000_000);
                if s < MIN_NS || e > MAX_NS || civ.day >= cal::MAX_DAY - 2 || civ.day <= cal::MIN_DAY + 2 {
                    // the day's bounds are not representable instants: jiff
                    // reports an error for the whole day; no verdict
                    cx.count("zoned_day_bounds_out_of_range_no_verdict", 1);
                    return;
                }
                let r = s + round(t - s, e - s, mode);
                if (MIN_NS..=MAX_NS).contains(&r) {
                    Some(r)
                } else {
                    None
                }
            }
            _ => {
                cx.count("zoned_day_without_clear_bounds_no_verdict", 1);
                return;
            }
        }
    } else {
        match model_dt_round(civ, unit, inc, mode) {
            None => None,
            Some(rc) => {
                // keep the original offset when it is still valid for the rounded civil time
                let keep = rc.to_ns() - o0 as i128 * 1_000_000_000;
                let keep_sec = keep.div_euclid(1_000_000_000) as i64;
                let r = if z.model.utoff(keep_sec) == o0 {
                    Some(keep)
                } else {
                    match crate::c04::model_classify(&z.model, rc) {
                        crate::c04::Class::Unambiguous(o) => Some(rc.to_ns() - o as i128 * 1_000_000_000),
                        crate::c04::Class::Fold(b, _) => Some(rc.to_ns() - b as i128 * 1_000_000_000),
                        crate::c04::Class::Gap(b, _) => Some(rc.to_ns() - b as i128 * 1_000_000_000),
                        _ => {
                            cx.count("zoned_round_outside_trichotomy_no_verdict", 1);
                            return;
                        }
                    }
                };
                r.filter(|x| (MIN_NS..=MAX_NS).contains(x))
            }
        }
    };
    match (got, exp) {
        (Some((g, go, same_tz)), Some(e)) => {
            if g != e {
                let tag = if unit == 6 && (gap_straddles_midnight(z, civ.day) || gap_straddles_midnight(z, civ.day + 1)) { "day,gap-straddles-midnight" } else if unit == 6 { "day" } else { "sub-day" };
                cx.violation(&format!("Zoned::round/value[{}]", tag), case, || format!("{}", e), || format!("{}", g));
            } else {
                let mo = z.model.utoff(g.div_euclid(1_000_000_000) as i64);
                if go != mo || !same_tz {
                    cx.violation("Zoned::round/inconsistent-result", case, || format!("offset {} same zone", mo), || format!("offset {} same_tz={}", go, same_tz));
                }
            }
        }
        (None, None) => {}
        (g, e) => cx.violation("Zoned::round/range", case, || format!("{:?}", e), || format!("{:?}", g)),
    }
}

pub fn run(cx: &mut Ctx) {
    if let Some(case) = cx.case.clone() {
        return replay(cx, &case);
    }
    let mut r = Rng::new(cx.shard_seed());
    let n = cx.budget(6_000_000, 200_000_000);
    for i in 0..n {
        let mode = *r.pick(&MODES);
        match i % 6 {
            0 => {
                let unit = r.below(7) as usize;
                let inc = gen_inc(&mut r, unit.min(5), true);
                let base = match r.below(6) {
                    0 => MIN_NS + r.below(200_000_000_000_000) as i128,
                    1 => MAX_NS - r.below(200_000_000_000_000) as i128,
                    2 => r.range(-200_000_000_000_000, 200_000_000_000_000) as i128,
                    _ => r.range128(MIN_NS, MAX_NS),
                };
                let step = if unit <= 5 && inc > 0 { (inc as i128).saturating_mul(UNIT_NS[unit]) } else { 0 };
                let t = near_multiple(&mut r, base, step).clamp(MIN_NS, MAX_NS);
                check_timestamp(cx, t, unit, inc, mode);
                if legal_timestamp(unit, inc) {
                    cx.nontrivial(hash64(format!("ts{}|{}|{}|{}", t, unit, inc, mode.idx()).as_bytes()));
                }
            }
            1 => {
                let unit = r.below(7) as usize;
                let inc = gen_inc(&mut r, unit.min(5), false);
                let step = if unit <= 5 && inc > 0 { (inc as i128).saturating_mul(UNIT_NS[unit]) } else { 0 };
                let nod0 = gen::gen_nod(&mut r) as i128;
                let nod = near_multiple(&mut r, nod0, step).clamp(0, NS_DAY - 1) as i64;
                check_time(cx, nod, unit, inc, mode);
            }
            2 => {
                let unit = r.below(8) as usize;
                let inc = if unit == 6 { *r.pick(&[1i64, 1, 1, 0, 2, -1]) } else { gen_inc(&mut r, unit.min(5), false) };
                let step = if unit <= 5 && inc > 0 { (inc as i128).saturating_mul(UNIT_NS[unit]) } else { NS_DAY / 2 };
                let mut c = gen::gen_civ(&mut r);
                c.nod = near_multiple(&mut r, c.nod as i128, step).clamp(0, NS_DAY - 1) as i64;
                if r.chance(1, 3) {
                    // close to the end of the day so that the carry happens
                    c.nod = NS_DAY as i64 - 1 - r.below(step.max(1).min(NS_DAY) as u64 / 2 + 1) as i64;
                }
                check_datetime(cx, c, unit, inc, mode);
                if legal_datetime(unit, inc) {
                    cx.nontrivial(hash64(format!("dt{}|{}|{}|{}|{}", c.day, c.nod, unit, inc, mode.idx()).as_bytes()));
                }
            }
            3 => {
                let unit = r.below(8) as usize;
                let inc = match r.below(8) {
                    0 => 0,
                    1 => -r.range(1, 50),
                    2 => i64::MAX,
                    3 => i64::MIN,
                    4 => r.range(1, 100_000),
                    _ => gen_inc(&mut r, unit.min(5), false).max(1),
                };
                let step = if unit <= 5 && inc > 0 { (inc as i128).saturating_mul(UNIT_NS[unit]) } else { 0 };
                let v0 = gen::gen_sdur_ns(&mut r);
                let v = near_multiple(&mut r, v0, step).clamp(SD_MIN_NS, SD_MAX_NS);
                check_sdur(cx, v, unit, inc, mode);
            }
            4 => {
                let unit = 2 + r.below(5) as usize;
                let inc = match r.below(8) {
                    0 => 0,
                    1 => -1,
                    2 => i64::MAX,
                    _ => *r.pick(&[1i64, 1, 5, 15, 30, 60, 7, 2, 90, 3600, 100_000]),
                };
                let v = r.biased(-93599, 93599) as i32;
                let v = if (3..=5).contains(&unit) && inc > 0 && inc < 100_000 { near_multiple(&mut r, v as i128, inc as i128 * (UNIT_NS[unit] / 1_000_000_000)).clamp(-93599, 93599) as i32 } else { v };
                check_offset(cx, v, unit, inc, mode);
            }
            _ => {
                let unit = r.below(6) as usize;
                let mut inc = gen_inc(&mut r, unit, false);
                if !legal_time(unit, inc) {
                    inc = 1;
                }
                if r.chance(1, 2) {
                    let a = gen::gen_nod(&mut r) as i128;
                    let b0 = gen::gen_nod(&mut r) as i128 - a;
                    let b = near_multiple(&mut r, b0, inc as i128 * UNIT_NS[unit]) + a;
                    check_until(cx, 0, a, b.clamp(0, NS_DAY - 1), unit, inc, mode);
                } else {
                    let a = r.range128(MIN_NS, MAX_NS);
                    let d0 = r.range(-4_000_000_000_000_000, 4_000_000_000_000_000) as i128;
                    let b = (a + near_multiple(&mut r, d0, inc as i128 * UNIT_NS[unit])).clamp(MIN_NS, MAX_NS);
                    check_until(cx, 1, a, b, unit, inc, mode);
                }
            }
        }
    }
    // enumerated part: every legal increment x every mode x ties, for each type (shard 0..)
    for unit in 0..6usize {
        for inc in 1..=NEXT[unit] {
            if !cx.mine((unit as u64) * 1000 + inc as u64) {
                continue;
            }
            for &mode in &MODES {
                let step = inc as i128 * UNIT_NS[unit];
                for k in [0i128, 1, 2, 3, -1, -2, -3] {
                    for d in [-1i128, 0, 1] {
                        let v = k * step + step / 2 + d; // around a tie
                        check_time(cx, v.rem_euclid(NS_DAY) as i64, unit, inc, mode);
                        check_timestamp(cx, v, unit, inc, mode);
                        check_sdur(cx, v, unit, inc, mode);
                        for day in [0i64, -719528 /* year 0 */, -721000 /* year -5 */, cal::MIN_DAY, cal::MAX_DAY] {
                            check_datetime(cx, Civ { day, nod: v.rem_euclid(NS_DAY) as i64 }, unit, inc, mode);
                            check_datetime(cx, Civ { day, nod: (NS_DAY - step / 2 + d).clamp(0, NS_DAY - 1) as i64 }, unit, inc, mode);
                        }
                    }
                }
            }
        }
    }
    if cx.shard == 0 {
        for &mode in &MODES {
            for unit in 0..7usize {
                check_timestamp(cx, MAX_NS, unit, 1, mode);
                check_timestamp(cx, MIN_NS, unit, 1, mode);
                check_sdur(cx, SD_MAX_NS, unit, 1, mode);
                check_sdur(cx, SD_MIN_NS, unit, 1, mode);
                check_offset(cx, 93599, unit, 1, mode);
                check_offset(cx, -93599, unit, 1, mode);
            }
        }
    }
    // Zoned rounding on a zone sample
    let years = zones::probe_years(&mut Rng::new(cx.seed), false);
    let ids = zones::corpus_ids(&cx.work);
    let stride = if cx.thorough { 3 } else { 23 };
    let mut zs: Vec<ZoneCase> = Vec::new();
    for (i, id) in ids.iter().enumerate() {
        let odd = id.contains(":Odd/");
        if (i as u64 % stride == cx.seed % stride || odd) && cx.mine(i as u64) {
            if let Ok(z) = zones::resolve(id, &cx.work) {
                zs.push(z);
            }
        }
    }
    for (i, s) in zones::FIXED_POSIX.iter().enumerate() {
        if cx.mine(i as u64) {
            if let Ok(z) = zones::from_posix(s) {
                zs.push(z);
            }
        }
    }
    let cor = tzmon::corroborate_all(&zs, &cx.work, &years);
    let per_zone = if cx.thorough { 40_000 } else { 4_000 };
    for (z, c) in zs.iter().zip(cor.iter()) {
        if !c.ok() || z.model.d10_zone() {
            cx.count("zones_skipped_no_verdict", 1);
            continue;
        }
        cx.count("zones", 1);
        let changes = z.model.changes(zones::TS_MIN, zones::TS_MAX, &years);
        for k in 0..per_zone {
            let mode = *r.pick(&MODES);
            let unit = *r.pick(&[6usize, 6, 5, 5, 4, 4, 3, 2, 1, 0]);
            let inc = if unit == 6 { 1 } else { gen_inc(&mut r, unit, false) };
            let t: i128 = if !changes.is_empty() && k % 4 != 3 {
                // within +-36 h of a transition
                let c = *r.pick(&changes);
                (c as i128 + r.range(-129_600, 129_600) as i128) * 1_000_000_000 + *r.pick(&[0i64, 0, 1, 500_000_000, 999_999_999]) as i128
            } else {
                r.range128(MIN_NS, MAX_NS)
            };
            let t = t.clamp(MIN_NS, MAX_NS);
            check_zoned(cx, z, t, unit, inc, mode);
            if !changes.is_empty() && k % 16 == 5 {
                // exactly at a transition and one tick beside it, and wherever the wall clock reads 00:00 under the
                // offset before or after it (a day can start twice or not at 00:00 at all), under every mode
                let c = *r.pick(&changes);
                let (ob, oa) = (z.model.utoff(c - 1) as i64, z.model.utoff(c) as i64);
                let mut probes: Vec<i128> = vec![c as i128 * 1_000_000_000, c as i128 * 1_000_000_000 - 1, c as i128 * 1_000_000_000 + 1];
                for o in [ob, oa] {
                    let day = (c + o).div_euclid(86_400);
                    for d in [day - 1, day, day + 1] {
                        for o2 in [ob, oa] {
                            probes.push((d * 86_400 - o2) as i128 * 1_000_000_000);
                        }
                    }
                }
                for t in probes {
                    let t = t.clamp(MIN_NS, MAX_NS);
                    check_zoned(cx, z, t, 6, 1, mode);
                    check_zoned(cx, z, t, unit, inc, *r.pick(&MODES));
                    cx.count("zoned_roundings_at_transitions_and_midnights", 2);
                }
            }
            if k % 4 == 0 && legal_datetime(unit, inc) {
                cx.nontrivial(hash64(format!("z{}|{}|{}|{}|{}", z.id, t, unit, inc, mode.idx()).as_bytes()));
            }
        }
        cx.count("zoned_roundings", per_zone as u64);
    }
    cx.sample(|| "Timestamp -1.5s round(Second, 1, HalfExpand) -> -2s; DateTime 0000-06-15T23:59:59.9 round(Second) -> 0000-06-16T00:00:00".to_string());
}

fn replay(cx: &mut Ctx, case: &str) {
    let p: Vec<&str> = case.split('|').collect();
    let n = |i: usize| p.get(i).and_then(|x| x.parse::<i128>().ok()).unwrap_or(0);
    let mode = |i: usize| MODES[(n(i) as usize).min(8)];
    match p[0] {
        "ts" => check_timestamp(cx, n(1), n(2) as usize, n(3) as i64, mode(4)),
        "time" => check_time(cx, n(1) as i64, n(2) as usize, n(3) as i64, mode(4)),
        "dt" => check_datetime(cx, Civ { day: n(1) as i64, nod: n(2) as i64 }, n(3) as usize, n(4) as i64, mode(5)),
        "sd" => check_sdur(cx, n(1), n(2) as usize, n(3) as i64, mode(4)),
        "off" => check_offset(cx, n(1) as i32, n(2) as usize, n(3) as i64, mode(4)),
        "until0" => check_until(cx, 0, n(1), n(2), n(3) as usize, n(4) as i64, mode(5)),
        "until1" => check_until(cx, 1, n(1), n(2), n(3) as usize, n(4) as i64, mode(5)),
        "zoned" => match zones::resolve(p[1], &cx.work) {
            Ok(z) => check_zoned(cx, &z, n(2), n(3) as usize, n(4) as i64, mode(5)),
            Err(e) => cx.inconclusive(e),
        },
        _ => cx.inconclusive("bad case"),
    }
    println!("replay {}: evaluations={} violations={}", case, cx.evals, cx.viol_total);
}

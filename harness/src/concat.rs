//! Writer for Android-style concatenated `tzdata` files (format as read by
//! jiff's src/tz/concatenated.rs / bionic's ZoneInfoDB): a 24 byte header
//! ("tzdata" + 5 version bytes + NUL, three big-endian u32 offsets), an index
//! of 52 byte entries (40 byte NUL padded name, start, length, raw UTC offset)
//! and the TZif blobs.

pub const ENTRY_LEN: usize = 52;

pub fn pack(version: &str, zones: &[(String, Vec<u8>)]) -> Vec<u8> {
    let mut zones: Vec<&(String, Vec<u8>)> = zones.iter().filter(|(n, _)| n.len() <= 40).collect();
    zones.sort_by(|a, b| a.0.cmp(&b.0));
    let index_offset = 24u32;
    let data_offset = index_offset + (zones.len() * ENTRY_LEN) as u32;
    let total: usize = zones.iter().map(|(_, b)| b.len()).sum();
    let final_offset = data_offset + total as u32;
    let mut out = Vec::with_capacity(final_offset as usize + 16);
    out.extend_from_slice(b"tzdata");
    let mut v = version.as_bytes().to_vec();
    v.resize(5, b'a');
    out.extend_from_slice(&v[..5]);
    out.push(0);
    out.extend_from_slice(&index_offset.to_be_bytes());
    out.extend_from_slice(&data_offset.to_be_bytes());
    out.extend_from_slice(&final_offset.to_be_bytes());
    let mut start = 0u32;
    for (name, bytes) in &zones {
        let mut n = name.as_bytes().to_vec();
        n.resize(40, 0);
        out.extend_from_slice(&n);
        out.extend_from_slice(&start.to_be_bytes());
        out.extend_from_slice(&(bytes.len() as u32).to_be_bytes());
        out.extend_from_slice(&0u32.to_be_bytes());
        start += bytes.len() as u32;
    }
    for (_, bytes) in &zones {
        out.extend_from_slice(bytes);
    }
    // zonetab section (ignored by jiff)
    out.extend_from_slice(b"# zone.tab\n");
    out
}

//! Reference arithmetic in plain i128: spans as unit vectors, civil addition,
//! clock-time arithmetic, exact rounding for the nine modes.

use crate::cal::{self, Civ, NS_DAY};
use jiff::{Span, Unit};

/// Unit indices (same order as jiff::Unit from smallest to largest).
pub const NANO: usize = 0;
pub const MICRO: usize = 1;
pub const MILLI: usize = 2;
pub const SEC: usize = 3;
pub const MIN: usize = 4;
pub const HOUR: usize = 5;
pub const DAY: usize = 6;
pub const WEEK: usize = 7;
pub const MONTH: usize = 8;
pub const YEAR: usize = 9;

pub const UNIT_NAMES: [&str; 10] = ["nanoseconds", "microseconds", "milliseconds", "seconds", "minutes", "hours", "days", "weeks", "months", "years"];

pub const LIMITS: [i64; 10] = [
    i64::MAX,                    // nanoseconds (min is i64::MIN + 1)
    631_107_417_600_000_000,     // microseconds
    631_107_417_600_000,         // milliseconds
    631_107_417_600,             // seconds
    10_518_456_960,              // minutes
    175_307_616,                 // hours
    7_304_484,                   // days
    1_043_497,                   // weeks
    239_976,                     // months
    19_998,                      // years
];

/// nanoseconds per unit for the uniform units (index 0..=5), and for civil
/// days/weeks (24 h days)
pub const UNIT_NS: [i128; 8] = [1, 1_000, 1_000_000, 1_000_000_000, 60_000_000_000, 3_600_000_000_000, 86_400_000_000_000, 604_800_000_000_000];

pub fn unit_of(i: usize) -> Unit {
    [Unit::Nanosecond, Unit::Microsecond, Unit::Millisecond, Unit::Second, Unit::Minute, Unit::Hour, Unit::Day, Unit::Week, Unit::Month, Unit::Year][i]
}

pub fn unit_index(u: Unit) -> usize {
    match u {
        Unit::Nanosecond => 0,
        Unit::Microsecond => 1,
        Unit::Millisecond => 2,
        Unit::Second => 3,
        Unit::Minute => 4,
        Unit::Hour => 5,
        Unit::Day => 6,
        Unit::Week => 7,
        Unit::Month => 8,
        Unit::Year => 9,
    }
}

#[derive(Clone, Copy, Debug, PartialEq, Eq, Default)]
pub struct MSpan {
    pub u: [i64; 10],
}

impl MSpan {
    pub fn zero() -> MSpan {
        MSpan::default()
    }
    pub fn one(unit: usize, v: i64) -> MSpan {
        let mut s = MSpan::zero();
        s.u[unit] = v;
        s
    }
    pub fn sign(&self) -> i64 {
        for &v in &self.u {
            if v != 0 {
                return v.signum();
            }
        }
        0
    }
    pub fn is_zero(&self) -> bool {
        self.u.iter().all(|&v| v == 0)
    }
    pub fn neg(&self) -> MSpan {
        let mut s = *self;
        for v in s.u.iter_mut() {
            *v = -*v;
        }
        s
    }
    /// hours and smaller, as nanoseconds
    pub fn time_ns(&self) -> i128 {
        (0..=HOUR).map(|i| self.u[i] as i128 * UNIT_NS[i]).sum()
    }
    pub fn has_calendar(&self) -> bool {
        self.u[DAY] != 0 || self.u[WEEK] != 0 || self.u[MONTH] != 0 || self.u[YEAR] != 0
    }
    pub fn largest(&self) -> Option<usize> {
        (0..10).rev().find(|&i| self.u[i] != 0)
    }
    /// Build the jiff span with the fallible setters (Err if a unit is over its limit).
    pub fn to_jiff(&self) -> Result<Span, jiff::Error> {
        let mut s = Span::new();
        if self.u[YEAR] != 0 {
            s = s.try_years(self.u[YEAR])?;
        }
        if self.u[MONTH] != 0 {
            s = s.try_months(self.u[MONTH])?;
        }
        if self.u[WEEK] != 0 {
            s = s.try_weeks(self.u[WEEK])?;
        }
        if self.u[DAY] != 0 {
            s = s.try_days(self.u[DAY])?;
        }
        if self.u[HOUR] != 0 {
            s = s.try_hours(self.u[HOUR])?;
        }
        if self.u[MIN] != 0 {
            s = s.try_minutes(self.u[MIN])?;
        }
        if self.u[SEC] != 0 {
            s = s.try_seconds(self.u[SEC])?;
        }
        if self.u[MILLI] != 0 {
            s = s.try_milliseconds(self.u[MILLI])?;
        }
        if self.u[MICRO] != 0 {
            s = s.try_microseconds(self.u[MICRO])?;
        }
        if self.u[NANO] != 0 {
            s = s.try_nanoseconds(self.u[NANO])?;
        }
        Ok(s)
    }
    pub fn from_jiff(s: &Span) -> MSpan {
        MSpan {
            u: [
                s.get_nanoseconds(),
                s.get_microseconds(),
                s.get_milliseconds(),
                s.get_seconds(),
                s.get_minutes(),
                s.get_hours() as i64,
                s.get_days() as i64,
                s.get_weeks() as i64,
                s.get_months() as i64,
                s.get_years() as i64,
            ],
        }
    }
    pub fn show(&self) -> String {
        let mut s = String::new();
        for i in (0..10).rev() {
            if self.u[i] != 0 {
                if !s.is_empty() {
                    s.push(' ');
                }
                s.push_str(&format!("{}{}", self.u[i], ["ns", "us", "ms", "s", "m", "h", "d", "w", "mo", "y"][i]));
            }
        }
        if s.is_empty() {
            s.push('0');
        }
        s
    }
    /// "y,mo,w,d,h,m,s,ms,us,ns" for replay strings
    pub fn encode(&self) -> String {
        (0..10).rev().map(|i| self.u[i].to_string()).collect::<Vec<_>>().join(",")
    }
    pub fn decode(s: &str) -> Option<MSpan> {
        let v: Vec<i64> = s.split(',').filter_map(|x| x.parse().ok()).collect();
        if v.len() != 10 {
            return None;
        }
        let mut m = MSpan::zero();
        for i in 0..10 {
            m.u[9 - i] = v[i];
        }
        Some(m)
    }
}

/// Add years+months (with day clamping) then weeks+days to a day number.
/// None when the year leaves -9999..=9999 or the day leaves the civil range.
pub fn add_calendar(day: i64, s: &MSpan) -> Option<i64> {
    let (y, m, d) = cal::civil_from_days(day);
    let total = y as i128 * 12 + (m as i128 - 1) + s.u[YEAR] as i128 * 12 + s.u[MONTH] as i128;
    let ny = total.div_euclid(12);
    let nm = total.rem_euclid(12) as i64 + 1;
    if ny < cal::MIN_YEAR as i128 || ny > cal::MAX_YEAR as i128 {
        return None;
    }
    let ny = ny as i64;
    let nd = d.min(cal::days_in_month(ny, nm));
    let z = cal::days_from_civil(ny, nm, nd) as i128 + s.u[WEEK] as i128 * 7 + s.u[DAY] as i128;
    if z < cal::MIN_DAY as i128 || z > cal::MAX_DAY as i128 {
        return None;
    }
    Some(z as i64)
}

/// Civil datetime + span (24 h days).
pub fn add_datetime(c: Civ, s: &MSpan) -> Option<Civ> {
    // Intermediate results are monotone (all units share a sign), so checking
    // the final value is equivalent to checking every step; but the year
    // check of the month arithmetic must still be made on the final month.
    let (y, m, d) = c.ymd();
    let total = y as i128 * 12 + (m as i128 - 1) + s.u[YEAR] as i128 * 12 + s.u[MONTH] as i128;
    let ny = total.div_euclid(12);
    let nm = total.rem_euclid(12) as i64 + 1;
    if ny < cal::MIN_YEAR as i128 || ny > cal::MAX_YEAR as i128 {
        return None;
    }
    let ny = ny as i64;
    let nd = d.min(cal::days_in_month(ny, nm));
    let z = cal::days_from_civil(ny, nm, nd) as i128 + s.u[WEEK] as i128 * 7 + s.u[DAY] as i128;
    let ns = z * NS_DAY + c.nod as i128 + s.time_ns();
    let r = Civ::from_ns_checked(ns)?;
    if r.in_range() {
        Some(r)
    } else {
        None
    }
}

/// Civil date + span: time units count only as whole days, truncated toward zero.
pub fn add_date(day: i64, s: &MSpan) -> Option<i64> {
    let z = add_calendar_unchecked(day, s)?;
    let z = z + s.time_ns() / NS_DAY;
    if z < cal::MIN_DAY as i128 || z > cal::MAX_DAY as i128 {
        None
    } else {
        Some(z as i64)
    }
}

fn add_calendar_unchecked(day: i64, s: &MSpan) -> Option<i128> {
    let (y, m, d) = cal::civil_from_days(day);
    let total = y as i128 * 12 + (m as i128 - 1) + s.u[YEAR] as i128 * 12 + s.u[MONTH] as i128;
    let ny = total.div_euclid(12);
    let nm = total.rem_euclid(12) as i64 + 1;
    if ny < cal::MIN_YEAR as i128 || ny > cal::MAX_YEAR as i128 {
        return None;
    }
    let ny = ny as i64;
    let nd = d.min(cal::days_in_month(ny, nm));
    Some(cal::days_from_civil(ny, nm, nd) as i128 + s.u[WEEK] as i128 * 7 + s.u[DAY] as i128)
}

impl Civ {
    pub fn from_ns_checked(total: i128) -> Option<Civ> {
        let day = total.div_euclid(NS_DAY);
        if day < i64::MIN as i128 / 2 || day > i64::MAX as i128 / 2 {
            return None;
        }
        Some(Civ { day: day as i64, nod: total.rem_euclid(NS_DAY) as i64 })
    }
}

// ---------------------------------------------------------------------------
// rounding

#[derive(Clone, Copy, Debug, PartialEq, Eq)]
pub enum Mode {
    Ceil,
    Floor,
    Expand,
    Trunc,
    HalfCeil,
    HalfFloor,
    HalfExpand,
    HalfTrunc,
    HalfEven,
}

pub const MODES: [Mode; 9] = [Mode::Ceil, Mode::Floor, Mode::Expand, Mode::Trunc, Mode::HalfCeil, Mode::HalfFloor, Mode::HalfExpand, Mode::HalfTrunc, Mode::HalfEven];

impl Mode {
    pub fn to_jiff(self) -> jiff::RoundMode {
        use jiff::RoundMode as R;
        match self {
            Mode::Ceil => R::Ceil,
            Mode::Floor => R::Floor,
            Mode::Expand => R::Expand,
            Mode::Trunc => R::Trunc,
            Mode::HalfCeil => R::HalfCeil,
            Mode::HalfFloor => R::HalfFloor,
            Mode::HalfExpand => R::HalfExpand,
            Mode::HalfTrunc => R::HalfTrunc,
            Mode::HalfEven => R::HalfEven,
        }
    }
    pub fn idx(self) -> usize {
        MODES.iter().position(|m| *m == self).unwrap()
    }
}

/// Round `v` to a multiple of `inc` (> 0), exactly.
pub fn round(v: i128, inc: i128, mode: Mode) -> i128 {
    let lo = v.div_euclid(inc) * inc; // floor multiple
    let rem = v - lo; // 0 <= rem < inc
    if rem == 0 {
        return v;
    }
    let hi = lo + inc;
    let neg = v < 0;
    let twice = rem * 2;
    match mode {
        Mode::Ceil => hi,
        Mode::Floor => lo,
        Mode::Expand => {
            if neg {
                lo
            } else {
                hi
            }
        }
        Mode::Trunc => {
            if neg {
                hi
            } else {
                lo
            }
        }
        _ => {
            if twice < inc {
                lo
            } else if twice > inc {
                hi
            } else {
                // tie
                match mode {
                    Mode::HalfCeil => hi,
                    Mode::HalfFloor => lo,
                    Mode::HalfExpand => {
                        if neg {
                            lo
                        } else {
                            hi
                        }
                    }
                    Mode::HalfTrunc => {
                        if neg {
                            hi
                        } else {
                            lo
                        }
                    }
                    Mode::HalfEven => {
                        // parity of the quotient: choose the even multiple
                        if (lo / inc).rem_euclid(2) == 0 {
                            lo
                        } else {
                            hi
                        }
                    }
                    _ => unreachable!(),
                }
            }
        }
    }
}

//! Run context, report collector (evaluations / distinct non-trivial cases /
//! samples / violations / counters), panic capture.

use crate::json::J;
use std::cell::RefCell;
use std::collections::{BTreeMap, HashSet};
use std::panic::{catch_unwind, AssertUnwindSafe};

#[derive(Clone, Debug)]
pub struct Viol {
    pub class: String,
    pub case: String,
    pub expected: String,
    pub got: String,
    pub count: u64,
}

pub struct Ctx {
    pub prop: String,
    pub thorough: bool,
    pub seed: u64,
    pub shard: u64,
    pub nshards: u64,
    pub out: Option<String>,
    pub case: Option<String>,
    pub flavour: String,
    pub work: String,
    pub opts: BTreeMap<String, String>,
    // report
    pub evals: u64,
    pub nt: HashSet<u64>,
    pub nt_overflow: u64,
    pub samples: Vec<String>,
    pub viols: BTreeMap<String, Viol>,
    pub viol_total: u64,
    pub counters: BTreeMap<String, u64>,
    pub inconclusive: Vec<String>,
    pub notes: Vec<String>,
}

pub const NT_CAP: usize = 3_000_000;

impl Ctx {
    pub fn from_args(args: &[String]) -> Ctx {
        let mut c = Ctx {
            prop: args.get(0).cloned().unwrap_or_default(),
            thorough: false,
            seed: 0,
            shard: 0,
            nshards: 1,
            out: None,
            case: None,
            flavour: if cfg!(debug_assertions) { "dbg".into() } else { "rel".into() },
            work: "/verif/work".into(),
            opts: BTreeMap::new(),
            evals: 0,
            nt: HashSet::new(),
            nt_overflow: 0,
            samples: Vec::new(),
            viols: BTreeMap::new(),
            viol_total: 0,
            counters: BTreeMap::new(),
            inconclusive: Vec::new(),
            notes: Vec::new(),
        };
        let mut i = 1;
        while i < args.len() {
            let a = args[i].as_str();
            let mut val = || {
                i += 1;
                args.get(i).cloned().unwrap_or_default()
            };
            match a {
                "--tier" => c.thorough = val() == "thorough",
                "--seed" => c.seed = val().parse().unwrap_or(0),
                "--shard" => {
                    let v = val();
                    let mut it = v.split('/');
                    c.shard = it.next().and_then(|x| x.parse().ok()).unwrap_or(0);
                    c.nshards = it.next().and_then(|x| x.parse().ok()).unwrap_or(1).max(1);
                }
                "--out" => c.out = Some(val()),
                "--case" => c.case = Some(val()),
                "--flavour" => c.flavour = val(),
                "--work" => c.work = val(),
                other => {
                    if let Some((k, v)) = other.split_once('=') {
                        c.opts.insert(k.trim_start_matches('-').to_string(), v.to_string());
                    } else {
                        c.opts.insert(other.trim_start_matches('-').to_string(), "1".into());
                    }
                }
            }
            i += 1;
        }
        c
    }

    pub fn opt_u64(&self, k: &str, default: u64) -> u64 {
        self.opts.get(k).and_then(|v| v.parse().ok()).unwrap_or(default)
    }
    pub fn opt(&self, k: &str) -> Option<&str> {
        self.opts.get(k).map(|s| s.as_str())
    }

    /// Seed for this shard.
    pub fn shard_seed(&self) -> u64 {
        crate::rng::hash_mix(self.seed, self.shard.wrapping_mul(0x1000193) ^ crate::rng::hash64(self.prop.as_bytes()))
    }
    /// Does item number `i` of an enumerated space belong to this shard?
    #[inline]
    pub fn mine(&self, i: u64) -> bool {
        i % self.nshards == self.shard
    }
    /// Scale a count by tier: (quick, thorough), divided over shards.
    pub fn budget(&self, quick: u64, thorough: u64) -> u64 {
        let n = if self.thorough { thorough } else { quick };
        let scale = self.opt_u64("scale_pct", 100);
        ((n as u128 * scale as u128 / 100) as u64 / self.nshards).max(1)
    }

    #[inline]
    pub fn eval(&mut self, n: u64) {
        self.evals += n;
    }
    #[inline]
    pub fn nontrivial(&mut self, h: u64) {
        if self.nt.len() < NT_CAP {
            self.nt.insert(h);
        } else {
            self.nt_overflow += 1;
        }
    }
    pub fn sample(&mut self, f: impl FnOnce() -> String) {
        // keep the first few and then a sparse trickle
        let n = self.counters.entry("_sample_seen".into()).or_insert(0);
        *n += 1;
        let k = *n;
        if self.samples.len() < 4 || (k.is_power_of_two() && self.samples.len() < 12) {
            self.samples.push(f());
        }
    }
    #[inline]
    pub fn count(&mut self, k: &str, n: u64) {
        if let Some(v) = self.counters.get_mut(k) {
            *v += n;
        } else {
            self.counters.insert(k.to_string(), n);
        }
    }
    pub fn inconclusive(&mut self, msg: impl Into<String>) {
        let m = msg.into();
        if self.inconclusive.len() < 50 {
            self.inconclusive.push(m);
        }
    }
    pub fn note(&mut self, msg: impl Into<String>) {
        if self.notes.len() < 50 {
            self.notes.push(msg.into());
        }
    }
    /// Record a violation. `class` groups witnesses (api + kind of failure);
    /// `case` is the replay string understood by this property's `--case`.
    pub fn violation(&mut self, class: &str, case: impl FnOnce() -> String, expected: impl FnOnce() -> String, got: impl FnOnce() -> String) {
        self.viol_total += 1;
        if let Some(v) = self.viols.get_mut(class) {
            v.count += 1;
            return;
        }
        if self.viols.len() >= 300 {
            return;
        }
        let v = Viol { class: class.to_string(), case: case(), expected: expected(), got: got(), count: 1 };
        if self.case.is_some() {
            println!("REPLAY-VIOLATION class={} case={} expected={} got={}", v.class, v.case, v.expected, v.got);
        }
        self.viols.insert(class.to_string(), v);
    }

    pub fn finish(&mut self) -> i32 {
        self.counters.remove("_sample_seen");
        let mut o = J::obj();
        o.set("property", J::s(self.prop.clone()));
        o.set("flavour", J::s(self.flavour.clone()));
        o.set("shard", J::u(self.shard));
        o.set("nshards", J::u(self.nshards));
        o.set("seed", J::u(self.seed));
        o.set("evaluations", J::u(self.evals));
        o.set("distinct_nontrivial", J::u(self.nt.len() as u64));
        o.set("nt_overflow", J::u(self.nt_overflow));
        o.set("samples", J::Arr(self.samples.iter().map(|s| J::s(s.clone())).collect()));
        let mut cs = J::obj();
        for (k, v) in &self.counters {
            cs.set(k, J::u(*v));
        }
        o.set("counters", cs);
        o.set("violations_total", J::u(self.viol_total));
        let mut vs = Vec::new();
        for v in self.viols.values() {
            let mut j = J::obj();
            j.set("class", J::s(v.class.clone()));
            j.set("case", J::s(v.case.clone()));
            j.set("expected", J::s(v.expected.clone()));
            j.set("got", J::s(v.got.clone()));
            j.set("count", J::u(v.count));
            vs.push(j);
        }
        o.set("violations", J::Arr(vs));
        o.set("inconclusive", J::Arr(self.inconclusive.iter().map(|s| J::s(s.clone())).collect()));
        o.set("notes", J::Arr(self.notes.iter().map(|s| J::s(s.clone())).collect()));
        let text = o.to_string();
        if let Some(p) = &self.out {
            // written atomically: with -Zmiri-many-seeds several runs of the same shard write this path
            let tmp = format!("{}.tmp{}", p, std::process::id() as u64 ^ self.evals);
            if std::fs::write(&tmp, &text).is_ok() && std::fs::rename(&tmp, p).is_err() {
                let _ = std::fs::write(p, &text);
                let _ = std::fs::remove_file(&tmp);
            }
            // distinct non-trivial hashes, sorted, for the cross-shard union
            let mut hs: Vec<u64> = self.nt.iter().copied().collect();
            hs.sort_unstable();
            let mut bytes = Vec::with_capacity(hs.len() * 8);
            for h in hs {
                bytes.extend_from_slice(&h.to_le_bytes());
            }
            let _ = std::fs::write(format!("{}.nt", p), bytes);
        } else {
            println!("{}", text);
        }
        if self.viol_total > 0 {
            1
        } else if !self.inconclusive.is_empty() {
            2
        } else {
            0
        }
    }
}

// ---------------------------------------------------------------------------
// panic capture

thread_local! {
    static LAST_PANIC: RefCell<Option<String>> = RefCell::new(None);
    static QUIET: RefCell<bool> = RefCell::new(false);
}

pub fn install_panic_hook() {
    let prev = std::panic::take_hook();
    std::panic::set_hook(Box::new(move |info| {
        let loc = info.location().map(|l| format!("{}:{}", l.file(), l.line())).unwrap_or_else(|| "?".into());
        let msg = if let Some(s) = info.payload().downcast_ref::<&str>() {
            s.to_string()
        } else if let Some(s) = info.payload().downcast_ref::<String>() {
            s.clone()
        } else {
            "<non-string panic>".to_string()
        };
        let quiet = QUIET.with(|q| *q.borrow());
        LAST_PANIC.with(|p| *p.borrow_mut() = Some(format!("{}: {}", loc, msg)));
        if !quiet {
            prev(info);
        }
    }));
}

#[derive(Debug, Clone)]
pub struct Panicked {
    /// "file:line: message"
    pub what: String,
}

impl Panicked {
    /// file:line only (stable class key; messages may contain values)
    pub fn loc(&self) -> String {
        let w = &self.what;
        // strip to "file:line"
        let mut parts = w.splitn(3, ':');
        let f = parts.next().unwrap_or("?");
        let l = parts.next().unwrap_or("?");
        let f = f.strip_prefix("/repo/").unwrap_or(f);
        format!("{}:{}", f, l)
    }
    pub fn in_jiff(&self) -> bool {
        let l = self.loc();
        l.starts_with("src/") || l.starts_with("crates/") || l.contains("/repo/")
    }
}

/// Run `f`, turning a panic into an `Err` carrying its location.
pub fn guard<T>(f: impl FnOnce() -> T) -> Result<T, Panicked> {
    QUIET.with(|q| *q.borrow_mut() = true);
    let r = catch_unwind(AssertUnwindSafe(f));
    QUIET.with(|q| *q.borrow_mut() = false);
    match r {
        Ok(v) => Ok(v),
        Err(_) => {
            let what = LAST_PANIC.with(|p| p.borrow_mut().take()).unwrap_or_else(|| "?:?: unknown".into());
            Err(Panicked { what })
        }
    }
}

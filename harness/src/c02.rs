//! C02 — instant <-> civil datetime under a fixed offset is exact and
//! invertible; all views/constructors of a timestamp denote one integer.

use crate::cal::{self, Civ, NS_DAY};
use crate::rep::{guard, Ctx};
use crate::rng::{hash_mix, Rng};
use crate::tzmon::{civ_of, dt_of};
use crate::zones::{TS_MAX, TS_MIN};
use jiff::tz::Offset;
use jiff::{SignedDuration, Timestamp};

const NS: i128 = 1_000_000_000;
pub const MIN_NS: i128 = TS_MIN as i128 * NS;
pub const MAX_NS: i128 = TS_MAX as i128 * NS + 999_999_999;

pub fn ts_from_ns(t: i128) -> Option<Timestamp> {
    // built from (second, nanosecond) with the same sign, independent of from_nanosecond
    let s = (t / NS) as i64;
    let n = (t % NS) as i32;
    Timestamp::new(s, n).ok()
}

fn offsets(r: &mut Rng) -> Vec<i32> {
    let mut v = vec![0, 1, -1, 59, -59, 3600, -3600, 19800, -19800, 43200, -43200, -93599, 93599, 60, -60, 86399, -86400, 86400];
    for _ in 0..8 {
        v.push(r.range(-93599, 93599) as i32);
    }
    v
}

/// Forward and backward conversion of one (instant, offset).
pub fn check_pair(cx: &mut Ctx, t: i128, o: i32) {
    if t < MIN_NS || t > MAX_NS {
        return;
    }
    let case = || format!("pair:{}:{}", t, o);
    let Some(ts) = ts_from_ns(t) else {
        cx.violation("Timestamp::new/rejects-in-range", case, || "Ok".into(), || "Err".into());
        return;
    };
    let off = Offset::from_seconds(o).unwrap();
    let exp = Civ::from_ns(t + o as i128 * NS);
    cx.eval(2);
    let r = guard(|| {
        let dt = off.to_datetime(ts);
        let backts = off.to_timestamp(dt).ok();
        let back = backts.map(|x| x.as_nanosecond());
        // the same instant must also be the same *value*: equal, same views
        let same = backts.map(|x| (x == ts, x.as_second() == ts.as_second(), x.subsec_nanosecond() == ts.subsec_nanosecond(), x.cmp(&ts) == std::cmp::Ordering::Equal));
        (dt, back, same)
    });
    match r {
        Err(p) => cx.violation(&format!("Offset::to_datetime/panic@{}", p.loc()), case, || format!("{:?}", exp), || p.what.clone()),
        Ok((dt, back, same)) => {
            if let Some(sm) = same {
                if back == Some(t) && sm != (true, true, true, true) {
                    cx.violation("Offset::to_timestamp/denormalized-result", case, || "== original, same as_second/subsec_nanosecond".into(), || format!("(eq, as_second, subsec, cmp) = {:?}", sm));
                }
            }
            let valid = cal::valid(dt.year() as i64, dt.month() as i64, dt.day() as i64);
            if !valid || civ_of(dt) != exp {
                cx.violation("Offset::to_datetime", case, || format!("{:?} {:?}", exp.ymd(), exp.hms()), || format!("{:?}", dt));
            }
            if back != Some(t) {
                cx.violation("Offset::to_timestamp(to_datetime(t))!=t", case, || format!("{}", t), || format!("{:?}", back));
            }
        }
    }
}

/// Civil -> instant: Ok exactly when the instant is in range.
pub fn check_civil(cx: &mut Ctx, c: Civ, o: i32) {
    let Some(dt) = dt_of(c) else { return };
    let case = || format!("civil:{}:{}:{}", c.day, c.nod, o);
    let off = Offset::from_seconds(o).unwrap();
    let t = c.to_ns() - o as i128 * NS;
    let exp = if (MIN_NS..=MAX_NS).contains(&t) { Some(t) } else { None };
    cx.eval(1);
    match guard(|| off.to_timestamp(dt).ok().map(|x| (x.as_nanosecond(), x.as_second(), x.subsec_nanosecond()))) {
        Err(p) => cx.violation(&format!("Offset::to_timestamp/panic@{}", p.loc()), case, || format!("{:?}", exp), || p.what.clone()),
        Ok(g) => {
            if g.map(|x| x.0) != exp {
                cx.violation("Offset::to_timestamp/range-or-value", case, || format!("{:?}", exp), || format!("{:?}", g));
            } else if let Some((n, sec, sub)) = g {
                if sec as i128 != n / NS || sub as i128 != n % NS {
                    cx.violation("Offset::to_timestamp/denormalized-result", case, || format!("second {} subsec {}", n / NS, n % NS), || format!("second {} subsec {}", sec, sub));
                }
            }
        }
    }
}

/// All views and constructors of one in-range instant.
pub fn check_views(cx: &mut Ctx, t: i128) {
    if t < MIN_NS || t > MAX_NS {
        return;
    }
    let case = || format!("views:{}", t);
    let Some(ts) = ts_from_ns(t) else {
        cx.violation("Timestamp::new/rejects-in-range", case, || "Ok".into(), || "Err".into());
        return;
    };
    cx.eval(12);
    let r = guard(|| {
        let mut bad: Vec<(&'static str, String, String)> = Vec::new();
        macro_rules! eq {
            ($n:expr, $e:expr, $g:expr) => {
                let (e, g) = ($e, $g);
                if e != g {
                    bad.push(($n, format!("{:?}", e), format!("{:?}", g)));
                }
            };
        }
        // every way of building an instant must give the same *value*:
        // (total, second, subsec) normalized, and equal to the reference
        let canon = |x: Timestamp| (x.as_nanosecond(), x.as_second(), x.subsec_nanosecond());
        let want = |total: i128| Some((total, (total / NS) as i64, (total % NS) as i32));
        eq!("as_nanosecond", t, ts.as_nanosecond());
        eq!("as_second", (t / NS) as i64, ts.as_second());
        eq!("as_millisecond", (t / 1_000_000) as i64, ts.as_millisecond());
        eq!("as_microsecond", (t / 1_000) as i64, ts.as_microsecond());
        eq!("subsec_nanosecond", (t % NS) as i32, ts.subsec_nanosecond());
        eq!("subsec_microsecond", ((t % NS) / 1_000) as i32, ts.subsec_microsecond());
        eq!("subsec_millisecond", ((t % NS) / 1_000_000) as i32, ts.subsec_millisecond());
        eq!("from_nanosecond", want(t), Timestamp::from_nanosecond(t).ok().map(canon));
        eq!("from_nanosecond/eq", Some(true), Timestamp::from_nanosecond(t).ok().map(|x| x == ts && x.cmp(&ts) == std::cmp::Ordering::Equal));
        let d = ts.as_duration();
        eq!("as_duration", t, d.as_nanos());
        eq!("from_duration", want(t), Timestamp::from_duration(d).ok().map(canon));
        eq!("from_duration(new)", Some(t), Timestamp::from_duration(SignedDuration::new((t / NS) as i64, (t % NS) as i32)).ok().map(|x| x.as_nanosecond()));
        // unit constructors on the truncated views
        let s = (t / NS) as i64;
        eq!("from_second", want(s as i128 * NS), Timestamp::from_second(s).ok().map(canon));
        let ms = (t / 1_000_000) as i64;
        eq!("from_millisecond", want(ms as i128 * 1_000_000), Timestamp::from_millisecond(ms).ok().map(canon));
        eq!("from_millisecond/eq", Some(true), Timestamp::from_millisecond(ms).ok().map(|x| Some(x) == ts_from_ns(ms as i128 * 1_000_000)));
        let us = (t / 1_000) as i64;
        eq!("from_microsecond", want(us as i128 * 1_000), Timestamp::from_microsecond(us).ok().map(canon));
        eq!("from_microsecond/eq", Some(true), Timestamp::from_microsecond(us).ok().map(|x| Some(x) == ts_from_ns(us as i128 * 1_000)));
        // mixed-sign constructor inputs denoting the same integer
        let (s2, n2) = if t >= 0 { (s + 1, (t % NS) as i32 - 1_000_000_000) } else { (s - 1, (t % NS) as i32 + 1_000_000_000) };
        if (-999_999_999..=999_999_999).contains(&n2) && (TS_MIN..=TS_MAX).contains(&s2) {
            eq!("new(mixed-sign)", want(t), Timestamp::new(s2, n2).ok().map(canon));
        }
        eq!("signum", t.signum() as i8, ts.signum());
        bad
    });
    match r {
        Err(p) => cx.violation(&format!("Timestamp views/panic@{}", p.loc()), case, || "no panic".into(), || p.what.clone()),
        Ok(bad) => {
            for (n, e, g) in bad {
                cx.violation(&format!("Timestamp::{}", n), case, || e.clone(), || g.clone());
            }
        }
    }
}

/// Constructor validity for arbitrary (second, nanosecond).
pub fn check_new(cx: &mut Ctx, s: i64, n: i32) {
    let case = || format!("new:{}:{}", s, n);
    let total = s as i128 * NS + n as i128;
    let ok = (TS_MIN..=TS_MAX).contains(&s) && (-999_999_999..=999_999_999).contains(&n) && (MIN_NS..=MAX_NS).contains(&total);
    let exp = if ok { Some(total) } else { None };
    cx.eval(1);
    match guard(|| Timestamp::new(s, n).ok().map(|x| x.as_nanosecond())) {
        Err(p) => cx.violation(&format!("Timestamp::new/panic@{}", p.loc()), case, || format!("{:?}", exp), || p.what.clone()),
        Ok(g) => {
            if g != exp {
                cx.violation("Timestamp::new/validity-or-value", case, || format!("{:?}", exp), || format!("{:?}", g));
            }
        }
    }
    if ok {
        // `constant` is documented to agree with `new` wherever `new` is Ok
        match guard(|| Timestamp::constant(s, n).as_nanosecond()) {
            Ok(g) if g == total => {}
            Ok(g) => cx.violation("Timestamp::constant/value", case, || format!("{}", total), || format!("{}", g)),
            Err(p) => cx.violation(&format!("Timestamp::constant/panic@{}", p.loc()), case, || format!("{}", total), || p.what.clone()),
        }
    }
}

/// Unit constructors at and beyond the limits.
pub fn check_unit_ctor(cx: &mut Ctx, unit: u8, v: i128) {
    let case = || format!("unit:{}:{}", unit, v);
    let scale: i128 = [NS, 1_000_000, 1_000, 1][unit as usize];
    let total = v.checked_mul(scale);
    let exp = total.filter(|t| (MIN_NS..=MAX_NS).contains(t));
    cx.eval(1);
    let g = guard(|| match unit {
        0 => i64::try_from(v).ok().and_then(|x| Timestamp::from_second(x).ok()),
        1 => i64::try_from(v).ok().and_then(|x| Timestamp::from_millisecond(x).ok()),
        2 => i64::try_from(v).ok().and_then(|x| Timestamp::from_microsecond(x).ok()),
        _ => Timestamp::from_nanosecond(v).ok(),
    }
    .map(|x| x.as_nanosecond()));
    let exp = if unit < 3 && i64::try_from(v).is_err() { None } else { exp };
    match g {
        Err(p) => cx.violation(&format!("Timestamp::from_<unit>/panic@{}", p.loc()), case, || format!("{:?}", exp), || p.what.clone()),
        Ok(g) => {
            if g != exp {
                cx.violation(["Timestamp::from_second/range", "Timestamp::from_millisecond/range", "Timestamp::from_microsecond/range", "Timestamp::from_nanosecond/range"][unit as usize], case, || format!("{:?}", exp), || format!("{:?}", g));
            }
        }
    }
}

pub fn run(cx: &mut Ctx) {
    if let Some(case) = cx.case.clone() {
        return replay(cx, &case);
    }
    let mut r = Rng::new(cx.shard_seed());
    let offs = offsets(&mut Rng::new(cx.seed ^ 0xc02));
    // (A) local midnight +-1ns for every day (quick: strided + dense around epoch and limits)
    let stride: i64 = cx.opt_u64("day_stride", 1) as i64;
    let mut idx = 0u64;
    for day in cal::MIN_DAY..=cal::MAX_DAY + 1 {
        idx += 1;
        if !cx.mine(idx / 512) {
            continue;
        }
        let dense = day.abs() <= 400 || day - cal::MIN_DAY <= 400 || cal::MAX_DAY - day <= 400;
        if !dense && day.rem_euclid(stride) != 0 {
            continue;
        }
        for &o in &offs {
            let t = day as i128 * NS_DAY - o as i128 * NS;
            for d in [-1i128, 0, 1] {
                check_pair(cx, t + d, o);
            }
        }
        cx.nontrivial(hash_mix(day as u64, 0xc02));
        cx.count("day_boundaries", 1);
    }
    // (B) every second of four special days
    let days = [cal::MIN_DAY + 1, -1, 0, cal::MAX_DAY - 1];
    for (k, &day) in days.iter().enumerate() {
        for sec in 0..86400i64 {
            if !cx.mine((k as u64 * 86400 + sec as u64) / 64) {
                continue;
            }
            for ns in [0i128, 1, 999_999_999] {
                let t = (day as i128 * 86400 + sec as i128) * NS + ns;
                let o = offs[(sec as usize + k) % offs.len()];
                check_pair(cx, t, o);
                check_pair(cx, t, 0);
                if sec % 16 == 0 {
                    check_views(cx, t);
                }
            }
        }
    }
    // (C) seeded (t, o)
    let n = cx.budget(3_000_000, 60_000_000);
    for i in 0..n {
        let t = match r.below(8) {
            0 => MIN_NS + r.below(200 * NS as u64) as i128,
            1 => MAX_NS - r.below(200 * NS as u64) as i128,
            2 => r.range(-5 * NS as i64, 5 * NS as i64) as i128,
            _ => r.range128(MIN_NS, MAX_NS),
        };
        let o = if r.chance(1, 3) { *r.pick(&offs) } else { r.range(-93599, 93599) as i32 };
        check_pair(cx, t, o);
        if i % 4 == 0 {
            check_views(cx, t);
            cx.nontrivial(hash_mix(t as u64, (t >> 64) as u64));
        }
    }
    // all offsets once each at four instants (thorough), strided in quick
    let ostride = if cx.thorough { 1 } else { 97 };
    let mut o = -93599i32 + (cx.shard as i32);
    while o <= 93599 {
        for t in [MIN_NS, MAX_NS, -1, 86_399 * NS + 999_999_999] {
            check_pair(cx, t, o);
        }
        o += ostride * cx.nshards as i32;
    }
    // (D) civil datetimes within 26 h of both limits, 1 s steps
    let min = cal::MIN_DAY as i128 * NS_DAY;
    let max = (cal::MAX_DAY as i128 + 1) * NS_DAY - 1;
    for sec in 0..(52 * 3600i128) {
        if !cx.mine(sec as u64 / 32) {
            continue;
        }
        for &o in &offs {
            check_civil(cx, Civ::from_ns(min + sec * NS), o);
            check_civil(cx, Civ::from_ns(max - sec * NS), o);
            check_civil(cx, Civ::from_ns(max - sec * NS - 999_999_999), o);
        }
    }
    // civil datetimes that map exactly onto, and 1 ns beyond, both instant limits
    if cx.shard == 0 {
        for o in -93599..=93599i32 {
            for d in [-2i128, -1, 0, 1, 2] {
                for lim in [MIN_NS, MAX_NS] {
                    check_civil(cx, Civ::from_ns(lim + d + o as i128 * NS), o);
                }
            }
        }
    }
    let nc = cx.budget(300_000, 6_000_000);
    for _ in 0..nc {
        let c = Civ::from_ns(r.range128(min, max));
        check_civil(cx, c, r.range(-93599, 93599) as i32);
    }
    // (E) constructor grid
    if cx.shard == 0 {
        let mut secs: Vec<i64> = vec![i64::MIN, i64::MAX, 0, 1, -1];
        for d in -2..=2 {
            secs.push(TS_MIN + d);
            secs.push(TS_MAX + d);
            for m in [-3i64, -1, 1, 2, 1000] {
                secs.push(m * 86400 + d);
            }
        }
        let nanos: Vec<i32> = vec![0, 1, -1, 999_999_999, -999_999_999, 1_000_000_000, -1_000_000_000, i32::MIN, i32::MAX, 500_000_000, -500_000_000];
        for &s in &secs {
            for &n in &nanos {
                check_new(cx, s, n);
            }
        }
        for unit in 0..4u8 {
            let scale: i128 = [NS, 1_000_000, 1_000, 1][unit as usize];
            for base in [MIN_NS / scale, MAX_NS / scale, 0] {
                for d in -3..=3i128 {
                    check_unit_ctor(cx, unit, base + d);
                }
            }
            for v in [i64::MIN as i128, i64::MAX as i128, i128::MIN, i128::MAX] {
                check_unit_ctor(cx, unit, v);
            }
        }
    }
    for _ in 0..cx.budget(200_000, 4_000_000) {
        let s = r.biased_out(TS_MIN, TS_MAX);
        let n = r.biased_out(-999_999_999, 999_999_999).clamp(i32::MIN as i64, i32::MAX as i64) as i32;
        check_new(cx, s, n);
    }
    cx.sample(|| format!("instant {} ns at offset {} s -> civil {:?}", MIN_NS + 1, -93599, Civ::from_ns(MIN_NS + 1 - 93599 * NS)));
    cx.sample(|| "local midnight -1ns/0/+1ns of every probed day for 26 offsets; every second of days MIN+1,-1,0,MAX-1".to_string());
}

fn replay(cx: &mut Ctx, case: &str) {
    let p: Vec<&str> = case.split(':').collect();
    let num = |i: usize| p.get(i).and_then(|x| x.parse::<i128>().ok()).unwrap_or(0);
    match p[0] {
        "pair" => check_pair(cx, num(1), num(2) as i32),
        "civil" => check_civil(cx, Civ { day: num(1) as i64, nod: num(2) as i64 }, num(3) as i32),
        "views" => check_views(cx, num(1)),
        "new" => check_new(cx, num(1) as i64, num(2) as i32),
        "unit" => check_unit_ctor(cx, num(1) as u8, num(2)),
        _ => cx.inconclusive("bad case"),
    }
    println!("replay {}: evaluations={} violations={}", case, cx.evals, cx.viol_total);
}

//! C15 — durations round-trip through the ISO 8601 and friendly formats.

use crate::arith::{self, unit_of, MSpan, LIMITS, UNIT_NS};
use crate::gen::{self, sdur_of_ns, SD_MAX_NS, SD_MIN_NS};
use crate::rep::{guard, Ctx};
use crate::rng::{hash64, hash_mix, Rng};
use jiff::fmt::friendly::{Designator, Direction, FractionalUnit, Spacing, SpanParser, SpanPrinter};
use jiff::fmt::temporal;
use jiff::{SignedDuration, Span};

#[derive(Clone, Copy, Debug)]
pub struct Cfg {
    pub designator: u8,
    pub spacing: u8,
    pub direction: u8,
    /// 0 = None, 1..=5 = Hour, Minute, Second, Millisecond, Microsecond
    pub fractional: u8,
    pub comma: bool,
    pub hms: bool,
    /// 255 = default
    pub padding: u8,
    /// 255 = None
    pub precision: u8,
    /// 255 = default, else unit index
    pub zero_unit: u8,
}

impl Cfg {
    pub fn from_index(i: u32) -> Cfg {
        let mut i = i;
        let mut take = |n: u32| {
            let v = i % n;
            i /= n;
            v as u8
        };
        Cfg { designator: take(4), spacing: take(3), direction: take(4), fractional: take(6), comma: take(2) == 1, hms: take(2) == 1, padding: 255, precision: 255, zero_unit: 255 }
    }
    pub fn encode(&self) -> String {
        format!("{},{},{},{},{},{},{},{},{}", self.designator, self.spacing, self.direction, self.fractional, self.comma as u8, self.hms as u8, self.padding, self.precision, self.zero_unit)
    }
    pub fn decode(s: &str) -> Option<Cfg> {
        let v: Vec<u8> = s.split(',').filter_map(|x| x.parse().ok()).collect();
        if v.len() != 9 {
            return None;
        }
        Some(Cfg { designator: v[0], spacing: v[1], direction: v[2], fractional: v[3], comma: v[4] == 1, hms: v[5] == 1, padding: v[6], precision: v[7], zero_unit: v[8] })
    }
    pub fn printer(&self) -> SpanPrinter {
        let mut p = SpanPrinter::new()
            .designator([Designator::Verbose, Designator::Short, Designator::Compact, Designator::HumanTime][self.designator as usize % 4])
            .spacing([Spacing::None, Spacing::BetweenUnits, Spacing::BetweenUnitsAndDesignators][self.spacing as usize % 3])
            .direction([Direction::Auto, Direction::Sign, Direction::ForceSign, Direction::Suffix][self.direction as usize % 4])
            .fractional(match self.fractional {
                1 => Some(FractionalUnit::Hour),
                2 => Some(FractionalUnit::Minute),
                3 => Some(FractionalUnit::Second),
                4 => Some(FractionalUnit::Millisecond),
                5 => Some(FractionalUnit::Microsecond),
                _ => None,
            })
            .comma_after_designator(self.comma)
            .hours_minutes_seconds(self.hms);
        if self.padding != 255 {
            p = p.padding(self.padding);
        }
        if self.precision != 255 {
            p = p.precision(Some(self.precision));
        }
        if self.zero_unit != 255 {
            p = p.zero_unit(unit_of(self.zero_unit as usize % 10));
        }
        p
    }
    /// the unit that carries the fraction (index), if any
    fn frac_unit(&self) -> Option<usize> {
        if self.hms {
            return Some(arith::SEC);
        }
        match self.fractional {
            1 => Some(arith::HOUR),
            2 => Some(arith::MIN),
            3 => Some(arith::SEC),
            4 => Some(arith::MILLI),
            5 => Some(arith::MICRO),
            _ => None,
        }
    }
    /// nanoseconds represented by one unit of the last printed digit; 0 = lossless
    fn tolerance_ns(&self) -> i128 {
        let Some(f) = self.frac_unit() else { return 0 };
        let digits = if self.precision == 255 { 9 } else { self.precision.min(9) as u32 };
        let unit = UNIT_NS[f];
        let needed = match f {
            arith::SEC => 9,
            arith::MILLI => 6,
            arith::MICRO => 3,
            _ => 99,
        };
        if digits >= needed {
            return 0;
        }
        // one unit of the last printed digit (rounded up)
        let d = 10i128.pow(digits);
        (unit + d - 1) / d
    }
}

fn total_time_upto(m: &MSpan, unit: usize) -> i128 {
    (0..=unit).map(|i| m.u[i] as i128 * UNIT_NS[i]).sum()
}

/// Compare a re-parsed span with the original under a configuration.
fn compare_spans(cfg: &Cfg, o: &MSpan, p: &MSpan) -> Result<(), String> {
    // calendar units and everything above the fractional unit: unit for unit
    let split = cfg.frac_unit();
    let upper_from = match split {
        None => 0,
        Some(f) => {
            if cfg.hms {
                arith::DAY // hours, minutes and seconds are separate fields but may be re-balanced by design? they are written as is
            } else {
                f + 1
            }
        }
    };
    if cfg.hms {
        // HH:MM:SS[.fff]: hours and minutes are written as they are
        for i in [arith::HOUR, arith::MIN] {
            if o.u[i] != p.u[i] {
                return Err(format!("{} differ: {} vs {}", arith::UNIT_NAMES[i], o.u[i], p.u[i]));
            }
        }
    }
    for i in upper_from..10 {
        if o.u[i] != p.u[i] {
            return Err(format!("{} differ: {} vs {}", arith::UNIT_NAMES[i], o.u[i], p.u[i]));
        }
    }
    if let Some(f) = split {
        let (a, b) = (total_time_upto(o, f), total_time_upto(p, f));
        let tol = cfg.tolerance_ns();
        if tol == 0 {
            if a != b {
                return Err(format!("total of {} and smaller differs: {} vs {} ns", arith::UNIT_NAMES[f], a, b));
            }
        } else if (a - b).abs() >= tol {
            return Err(format!("total of {} and smaller differs by {} ns, tolerance {} ns", arith::UNIT_NAMES[f], (a - b).abs(), tol));
        }
    }
    Ok(())
}

pub fn check_span_friendly(cx: &mut Ctx, cfg: &Cfg, m: &MSpan) {
    let Ok(span) = m.to_jiff() else { return };
    let case = || format!("fs|{}|{}", cfg.encode(), m.encode());
    cx.eval(1);
    let r = guard(|| {
        let s = cfg.printer().span_to_string(&span);
        let back = SpanParser::new().parse_span(&s).ok().map(|x| MSpan::from_jiff(&x));
        (s, back)
    });
    match r {
        Err(p) => cx.violation(&format!("friendly SpanPrinter/panic@{}", p.loc()), case, || "no panic".into(), || p.what.clone()),
        Ok((s, None)) => cx.violation("friendly/printed-span-rejected-by-parser", case, || "parses".into(), || s.clone()),
        Ok((s, Some(p))) => {
            if let Err(why) = compare_spans(cfg, m, &p) {
                let class = if cfg.tolerance_ns() == 0 { "friendly/span-lossless-roundtrip" } else { "friendly/span-lossy-bound" };
                cx.violation(class, case, || format!("{} ({})", m.show(), why), || format!("{} from {:?}", p.show(), s));
            }
        }
    }
}

pub fn check_duration_friendly(cx: &mut Ctx, cfg: &Cfg, ns: i128) {
    // a SignedDuration has no calendar units: asking for a zero duration to be printed
    // as e.g. "0y" is a misconfiguration whose output is (rightly) not a duration
    let mut cfg = *cfg;
    if cfg.zero_unit != 255 && cfg.zero_unit as usize > arith::HOUR {
        cfg.zero_unit = arith::HOUR as u8;
    }
    let cfg = &cfg;
    let d = sdur_of_ns(ns);
    let case = || format!("fd|{}|{}", cfg.encode(), ns);
    cx.eval(1);
    let r = guard(|| {
        let s = cfg.printer().duration_to_string(&d);
        let back = SpanParser::new().parse_duration(&s).ok().map(|x| x.as_nanos());
        (s, back)
    });
    match r {
        Err(p) => cx.violation(&format!("friendly duration printer/panic@{}", p.loc()), case, || "no panic".into(), || p.what.clone()),
        Ok((s, None)) => {
            // known finding D28: magnitudes above i64::MAX seconds
            let tag = if ns < -(i64::MAX as i128) * 1_000_000_000 - 999_999_999 { "[secs=i64::MIN]" } else { "" };
            cx.violation(&format!("friendly/printed-duration-rejected-by-parser{}", tag), case, || "parses".into(), || s.clone())
        }
        Ok((s, Some(b))) => {
            let tol = cfg.tolerance_ns();
            if tol == 0 {
                if b != ns {
                    cx.violation("friendly/duration-lossless-roundtrip", case, || format!("{}", ns), || format!("{} from {:?}", b, s));
                }
            } else if (b - ns).abs() >= tol {
                cx.violation("friendly/duration-lossy-bound", case, || format!("{} +- {}", ns, tol), || format!("{} from {:?}", b, s));
            }
        }
    }
}

pub fn check_iso(cx: &mut Ctx, m: &MSpan, lowercase: bool) {
    let Ok(span) = m.to_jiff() else { return };
    let case = || format!("iso|{}|{}", lowercase as u8, m.encode());
    cx.eval(2);
    let r = guard(|| {
        let s = temporal::SpanPrinter::new().lowercase(lowercase).span_to_string(&span);
        let back = temporal::SpanParser::new().parse_span(&s).ok().map(|x| MSpan::from_jiff(&x));
        let disp = span.to_string();
        let dback = disp.parse::<Span>().ok().map(|x| MSpan::from_jiff(&x));
        let alt = format!("{:#}", span);
        let aback = alt.parse::<Span>().ok().map(|x| MSpan::from_jiff(&x));
        (s, back, disp, dback, alt, aback)
    });
    match r {
        Err(p) => cx.violation(&format!("ISO SpanPrinter/panic@{}", p.loc()), case, || "no panic".into(), || p.what.clone()),
        Ok((s, back, disp, dback, alt, aback)) => {
            for (name, text, b) in [("temporal::SpanPrinter", &s, &back), ("Span Display {}", &disp, &dback)] {
                match b {
                    None => cx.violation(&format!("ISO/{}/printed-text-rejected", name), case, || "parses".into(), || text.clone()),
                    Some(p) => {
                        let mut ok = true;
                        for i in arith::MIN..10 {
                            if p.u[i] != m.u[i] {
                                ok = false;
                            }
                        }
                        if total_time_upto(p, arith::SEC) != total_time_upto(m, arith::SEC) {
                            ok = false;
                        }
                        if !ok {
                            cx.violation(&format!("ISO/{}/roundtrip", name), case, || m.show(), || format!("{} from {:?}", p.show(), text));
                        }
                    }
                }
            }
            match aback {
                None => cx.violation("Span Display {:#}/printed-text-rejected", case, || "parses".into(), || alt.clone()),
                Some(p) => {
                    if p != *m {
                        cx.violation("Span Display {:#}/roundtrip", case, || m.show(), || format!("{} from {:?}", p.show(), alt));
                    }
                }
            }
        }
    }
}

pub fn check_iso_duration(cx: &mut Ctx, ns: i128, lowercase: bool) {
    let d = sdur_of_ns(ns);
    let case = || format!("isod|{}|{}", lowercase as u8, ns);
    cx.eval(3);
    let r = guard(|| {
        let s = temporal::SpanPrinter::new().lowercase(lowercase).duration_to_string(&d);
        let back = temporal::SpanParser::new().parse_duration(&s).ok().map(|x| x.as_nanos());
        let disp = d.to_string();
        let dback = disp.parse::<SignedDuration>().ok().map(|x| x.as_nanos());
        let alt = format!("{:#}", d);
        let aback = alt.parse::<SignedDuration>().ok().map(|x| x.as_nanos());
        (s, back, disp, dback, alt, aback)
    });
    match r {
        Err(p) => cx.violation(&format!("ISO duration printer/panic@{}", p.loc()), case, || "no panic".into(), || p.what.clone()),
        Ok((s, back, disp, dback, alt, aback)) => {
            for (name, text, b) in [("temporal::SpanPrinter::duration", &s, &back), ("SignedDuration Display {}", &disp, &dback), ("SignedDuration Display {:#}", &alt, &aback)] {
                if *b != Some(ns) {
                    let tag = if b.is_none() && name.ends_with("{:#}") && ns < -(i64::MAX as i128) * 1_000_000_000 - 999_999_999 { "[secs=i64::MIN]" } else { "" };
                    cx.violation(&format!("{}/roundtrip{}", name, tag), case, || format!("{}", ns), || format!("{:?} from {:?}", b, text));
                }
            }
        }
    }
}

/// spans that stress printers: limits, sub-second mixes near 2^63, negatives, zero
fn gen_span(r: &mut Rng) -> MSpan {
    match r.below(10) {
        0 => MSpan::zero(),
        1 => {
            // one unit at its limit
            let u = r.below(10) as usize;
            MSpan::one(u, if r.chance(1, 2) { LIMITS[u] } else { -LIMITS[u] })
        }
        2 => {
            // every unit at its limit
            let sign = if r.chance(1, 2) { 1 } else { -1 };
            let mut m = MSpan::zero();
            for u in 0..10 {
                m.u[u] = sign * LIMITS[u];
            }
            m
        }
        3 => {
            // sub-second mix
            let sign = if r.chance(1, 2) { 1 } else { -1 };
            let mut m = MSpan::zero();
            m.u[arith::SEC] = sign * r.biased(0, LIMITS[arith::SEC]);
            m.u[arith::MILLI] = sign * r.biased(0, LIMITS[arith::MILLI]);
            m.u[arith::MICRO] = sign * r.biased(0, LIMITS[arith::MICRO]);
            m.u[arith::NANO] = sign * r.biased(0, LIMITS[arith::NANO]);
            m
        }
        4 => {
            // typical human sized
            let sign = if r.chance(1, 3) { -1 } else { 1 };
            let mut m = MSpan::zero();
            for u in 0..10 {
                if r.chance(1, 2) {
                    m.u[u] = sign * r.range(1, [999, 999, 999, 59, 59, 23, 30, 4, 11, 50][u]);
                }
            }
            m
        }
        5 => {
            // fractions that exercise carry: x.999999999, x.5, x.000000001
            let sign = if r.chance(1, 2) { 1 } else { -1 };
            let mut m = MSpan::zero();
            m.u[arith::HOUR] = sign * r.range(0, 3);
            m.u[arith::MIN] = sign * r.range(0, 61);
            m.u[arith::SEC] = sign * r.range(0, 61);
            m.u[arith::NANO] = sign * *r.pick(&[999_999_999i64, 1, 500_000_000, 999_999_999_999, 1_000_000_000, 123_456_789]);
            if r.chance(1, 2) {
                m.u[arith::MILLI] = sign * *r.pick(&[999i64, 1000, 1, 1001]);
                m.u[arith::MICRO] = sign * *r.pick(&[999i64, 1000, 1, 999_999]);
            }
            m
        }
        _ => gen::gen_span(r, &gen::ALL_UNITS, false),
    }
}

pub fn run(cx: &mut Ctx) {
    if let Some(case) = cx.case.clone() {
        return replay(cx, &case);
    }
    let mut r = Rng::new(cx.shard_seed());
    let per_cfg = cx.budget(1152 * 6_000, 1152 * 150_000) / 1152 * cx.nshards;
    // cfg_stride > 1 (Miri runs): only every n-th configuration of this shard
    let cfg_stride = cx.opt_u64("cfg_stride", 1);
    // the whole configuration lattice, shared between shards
    for ci in 0..1152u32 {
        if !cx.mine(ci as u64) || (ci as u64 / cx.nshards) % cfg_stride != 0 {
            continue;
        }
        let base = Cfg::from_index(ci);
        for k in 0..per_cfg {
            let mut cfg = base;
            // the whole u8 domain of both options is legal (values beyond the maximum are clamped)
            cfg.padding = if k % 8 == 7 { r.below(255) as u8 } else { *r.pick(&[255u8, 255, 0, 2, 7, 19, 20]) };
            cfg.precision = if k % 8 == 3 { r.below(255) as u8 } else { *r.pick(&[255u8, 255, 0, 3, 6, 9, 1, 10, 19, 20]) };
            cfg.zero_unit = if r.chance(1, 3) { r.below(10) as u8 } else { 255 };
            let m = gen_span(&mut r);
            check_span_friendly(cx, &cfg, &m);
            let ns = gen::gen_sdur_ns(&mut r);
            check_duration_friendly(cx, &cfg, ns);
            if k % 16 == 0 {
                cx.nontrivial(hash_mix(hash64(cfg.encode().as_bytes()), hash64(m.encode().as_bytes())));
            }
        }
        cx.count("configurations", 1);
    }
    // limits through every configuration
    for ci in 0..1152u32 {
        if !cx.mine(ci as u64 + 7) || (ci as u64 / cx.nshards) % cfg_stride != 0 {
            continue;
        }
        let cfg = Cfg::from_index(ci);
        for ns in [SD_MAX_NS, SD_MIN_NS, 0, 1, -1, 999_999_999, -999_999_999, 3_599_999_999_999, 59_999_999_999] {
            check_duration_friendly(cx, &cfg, ns);
        }
        let mut all = MSpan::zero();
        for u in 0..10 {
            all.u[u] = LIMITS[u];
        }
        check_span_friendly(cx, &cfg, &all);
        check_span_friendly(cx, &cfg, &all.neg());
        check_span_friendly(cx, &cfg, &MSpan::zero());
    }
    // ISO 8601
    let n = if cfg_stride > 1 { cx.budget(6_000_000, 150_000_000) / cfg_stride / 8 } else { cx.budget(6_000_000, 150_000_000) };
    for i in 0..n {
        let m = gen_span(&mut r);
        check_iso(cx, &m, r.chance(1, 2));
        let ns = gen::gen_sdur_ns(&mut r);
        check_iso_duration(cx, ns, r.chance(1, 2));
        if i % 8 == 0 {
            cx.nontrivial(hash64(m.encode().as_bytes()));
        }
    }
    for ns in [SD_MAX_NS, SD_MIN_NS, 0, 1, -1] {
        check_iso_duration(cx, ns, false);
    }
    cx.sample(|| "friendly: 1h 1.05m (fractional minutes) parses back within 60 ns/10^9; ISO: PT1H1M3.000000001S".to_string());
}

fn replay(cx: &mut Ctx, case: &str) {
    let p: Vec<&str> = case.split('|').collect();
    match p[0] {
        "fs" => {
            if let (Some(cfg), Some(m)) = (Cfg::decode(p[1]), MSpan::decode(p[2])) {
                if let Ok(s) = m.to_jiff() {
                    println!("printed: {:?}", guard(|| cfg.printer().span_to_string(&s)));
                }
                check_span_friendly(cx, &cfg, &m);
            }
        }
        "fd" => {
            if let Some(cfg) = Cfg::decode(p[1]) {
                let ns: i128 = p[2].parse().unwrap_or(0);
                println!("printed: {:?}", guard(|| cfg.printer().duration_to_string(&sdur_of_ns(ns))));
                check_duration_friendly(cx, &cfg, ns);
            }
        }
        "iso" => {
            if let Some(m) = MSpan::decode(p[2]) {
                check_iso(cx, &m, p[1] == "1");
            }
        }
        "isod" => check_iso_duration(cx, p[2].parse().unwrap_or(0), p[1] == "1"),
        _ => cx.inconclusive("bad case"),
    }
    println!("replay {}: evaluations={} violations={}", case, cx.evals, cx.viol_total);
}

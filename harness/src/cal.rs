//! Reference proleptic Gregorian calendar. Written from the textbook rules;
//! shares no code or algorithm with jiff (which uses Neri-Schneider).
//!
//! Two independent implementations are kept and cross-checked at start-up
//! (`self_check`): an odometer (next day by the leap rule and month table)
//! and Hinnant's days_from_civil / civil_from_days.

pub const MIN_YEAR: i64 = -9999;
pub const MAX_YEAR: i64 = 9999;

#[inline]
pub fn is_leap(y: i64) -> bool {
    y % 4 == 0 && (y % 100 != 0 || y % 400 == 0)
}

#[inline]
pub fn days_in_month(y: i64, m: i64) -> i64 {
    match m {
        1 | 3 | 5 | 7 | 8 | 10 | 12 => 31,
        4 | 6 | 9 | 11 => 30,
        2 => {
            if is_leap(y) {
                29
            } else {
                28
            }
        }
        _ => 0,
    }
}

#[inline]
pub fn days_in_year(y: i64) -> i64 {
    if is_leap(y) {
        366
    } else {
        365
    }
}

pub fn valid(y: i64, m: i64, d: i64) -> bool {
    (MIN_YEAR..=MAX_YEAR).contains(&y) && (1..=12).contains(&m) && d >= 1 && d <= days_in_month(y, m)
}

/// Hinnant: days since 1970-01-01.
pub fn days_from_civil(y: i64, m: i64, d: i64) -> i64 {
    let y = if m <= 2 { y - 1 } else { y };
    let era = if y >= 0 { y } else { y - 399 } / 400;
    let yoe = y - era * 400;
    let mp = (m + 9) % 12;
    let doy = (153 * mp + 2) / 5 + d - 1;
    let doe = yoe * 365 + yoe / 4 - yoe / 100 + doy;
    era * 146097 + doe - 719468
}

/// Hinnant: (y, m, d) from days since 1970-01-01.
pub fn civil_from_days(z: i64) -> (i64, i64, i64) {
    let z = z + 719468;
    let era = if z >= 0 { z } else { z - 146096 } / 146097;
    let doe = z - era * 146097;
    let yoe = (doe - doe / 1460 + doe / 36524 - doe / 146096) / 365;
    let y = yoe + era * 400;
    let doy = doe - (365 * yoe + yoe / 4 - yoe / 100);
    let mp = (5 * doy + 2) / 153;
    let d = doy - (153 * mp + 2) / 5 + 1;
    let m = if mp < 10 { mp + 3 } else { mp - 9 };
    (if m <= 2 { y + 1 } else { y }, m, d)
}

/// 1 = Monday ... 7 = Sunday, from the anchor 1970-01-01 = Thursday.
#[inline]
pub fn weekday_from_days(z: i64) -> i64 {
    // day 0 is Thursday (4)
    (z + 3).rem_euclid(7) + 1
}

pub fn day_of_year(y: i64, m: i64, d: i64) -> i64 {
    let mut n = d;
    for mm in 1..m {
        n += days_in_month(y, mm);
    }
    n
}

/// ISO 8601 week date by definition: the ISO week containing a date is the
/// Mon..Sun week containing it; it belongs to the ISO year that contains its
/// Thursday; week 1 is the week containing the first Thursday.
pub fn iso_week(y: i64, m: i64, d: i64) -> (i64, i64, i64) {
    let z = days_from_civil(y, m, d);
    let wd = weekday_from_days(z); // 1..7
    let thursday = z - wd + 4;
    let (ty, _, _) = civil_from_days(thursday);
    let jan1 = days_from_civil(ty, 1, 1);
    let week = (thursday - jan1) / 7 + 1;
    (ty, week, wd)
}

/// Number of ISO weeks in an ISO year (52 or 53): by definition, the week
/// number of Dec 28, which is always in the last week.
pub fn iso_weeks_in_year(y: i64) -> i64 {
    iso_week(y, 12, 28).1
}

/// Days since epoch of ISO (year, week, weekday 1..7), no validity check.
pub fn days_from_iso(y: i64, w: i64, wd: i64) -> i64 {
    // Jan 4 is always in week 1
    let jan4 = days_from_civil(y, 1, 4);
    let monday_w1 = jan4 - (weekday_from_days(jan4) - 1);
    monday_w1 + (w - 1) * 7 + (wd - 1)
}

/// An odometer: steps day by day using only the leap rule and month table.
#[derive(Clone, Copy, Debug, PartialEq, Eq)]
pub struct Odo {
    pub y: i64,
    pub m: i64,
    pub d: i64,
    /// days since 1970-01-01
    pub n: i64,
    /// 1=Mon..7=Sun
    pub wd: i64,
    pub doy: i64,
}

impl Odo {
    /// The odometer starts at the anchor 1970-01-01 (day 0, Thursday).
    pub fn epoch() -> Odo {
        Odo { y: 1970, m: 1, d: 1, n: 0, wd: 4, doy: 1 }
    }
    pub fn next(&mut self) {
        self.n += 1;
        self.wd = if self.wd == 7 { 1 } else { self.wd + 1 };
        if self.d < days_in_month(self.y, self.m) {
            self.d += 1;
            self.doy += 1;
        } else if self.m < 12 {
            self.m += 1;
            self.d = 1;
            self.doy += 1;
        } else {
            self.y += 1;
            self.m = 1;
            self.d = 1;
            self.doy = 1;
        }
    }
    pub fn prev(&mut self) {
        self.n -= 1;
        self.wd = if self.wd == 1 { 7 } else { self.wd - 1 };
        if self.d > 1 {
            self.d -= 1;
            self.doy -= 1;
        } else if self.m > 1 {
            self.m -= 1;
            self.d = days_in_month(self.y, self.m);
            self.doy -= 1;
        } else {
            self.y -= 1;
            self.m = 12;
            self.d = 31;
            self.doy = days_in_year(self.y);
        }
    }
    /// Odometer positioned at -9999-01-01 by walking back from the epoch.
    pub fn at_min() -> Odo {
        let mut o = Odo::epoch();
        while !(o.y == MIN_YEAR && o.m == 1 && o.d == 1) {
            o.prev();
        }
        o
    }
}

/// Cross-check the odometer against Hinnant over the whole range. Returns
/// the number of days walked or an error description.
pub fn self_check() -> Result<u64, String> {
    let mut o = Odo::at_min();
    let mut n = 0u64;
    loop {
        let z = days_from_civil(o.y, o.m, o.d);
        if z != o.n {
            return Err(format!("days_from_civil({},{},{})={} odometer={}", o.y, o.m, o.d, z, o.n));
        }
        if civil_from_days(o.n) != (o.y, o.m, o.d) {
            return Err(format!("civil_from_days({}) != {:?}", o.n, (o.y, o.m, o.d)));
        }
        if weekday_from_days(o.n) != o.wd {
            return Err(format!("weekday({}) {} != {}", o.n, weekday_from_days(o.n), o.wd));
        }
        if day_of_year(o.y, o.m, o.d) != o.doy {
            return Err(format!("doy mismatch at {:?}", o));
        }
        n += 1;
        if o.y == MAX_YEAR && o.m == 12 && o.d == 31 {
            break;
        }
        o.next();
    }
    if n != 7_304_484 {
        return Err(format!("day count {} != 7304484", n));
    }
    Ok(n)
}

pub const MIN_DAY: i64 = -4371587; // -9999-01-01
pub const MAX_DAY: i64 = 2932896; // 9999-12-31

/// Civil datetime as (days since epoch, nanosecond of day).
#[derive(Clone, Copy, Debug, PartialEq, Eq, PartialOrd, Ord)]
pub struct Civ {
    pub day: i64,
    pub nod: i64,
}

pub const NS_DAY: i128 = 86_400_000_000_000;

impl Civ {
    pub fn from_ns(total: i128) -> Civ {
        Civ { day: total.div_euclid(NS_DAY) as i64, nod: total.rem_euclid(NS_DAY) as i64 }
    }
    pub fn to_ns(self) -> i128 {
        self.day as i128 * NS_DAY + self.nod as i128
    }
    pub fn ymd(self) -> (i64, i64, i64) {
        civil_from_days(self.day)
    }
    pub fn hms(self) -> (i64, i64, i64, i64) {
        let s = self.nod / 1_000_000_000;
        (s / 3600, s / 60 % 60, s % 60, self.nod % 1_000_000_000)
    }
    pub fn in_range(self) -> bool {
        (MIN_DAY..=MAX_DAY).contains(&self.day)
    }
}

//! C06 — zoned arithmetic is DST-aware: calendar units on the wall clock,
//! time units exact. Every produced Zoned also passes the C13 invariant.

use crate::arith::{self, MSpan};
use crate::c02::{ts_from_ns, MAX_NS, MIN_NS};
use crate::c04::{model_classify, Class};
use crate::c08::Operand;
use crate::c10::{gap_straddles_midnight, model_start_of_day};
use crate::cal::{self, Civ, NS_DAY};
use crate::gen::{self, sdur_of_ns, udur_of_ns};
use crate::rep::{guard, Ctx};
use crate::rng::{hash64, Rng};
use crate::tzmon::{self};
use crate::zones::{self, ZoneCase};
use jiff::Zoned;

const NS: i128 = 1_000_000_000;

pub fn model_civil(z: &ZoneCase, t: i128) -> Civ {
    let sec = t.div_euclid(NS) as i64;
    Civ::from_ns(t + z.model.utoff(sec) as i128 * NS)
}

/// compatible resolution of a civil time by the model; None = no verdict
pub fn model_compatible(z: &ZoneCase, c: Civ) -> Option<Option<i128>> {
    let t = match model_classify(&z.model, c) {
        Class::Unambiguous(o) => c.to_ns() - o as i128 * NS,
        Class::Fold(b, _) => c.to_ns() - b as i128 * NS,
        Class::Gap(b, _) => c.to_ns() - b as i128 * NS,
        _ => return None,
    };
    Some(if (MIN_NS..=MAX_NS).contains(&t) { Some(t) } else { None })
}

/// The C13 invariant on a produced value, with jiff's own functions and the model.
pub fn zoned_invariant(cx: &mut Ctx, z: &ZoneCase, zd: &Zoned, what: &str, case: &dyn Fn() -> String) {
    cx.count("zoned_values_checked_for_consistency", 1);
    let r = guard(|| {
        let ts = zd.timestamp();
        let o = zd.offset();
        (o == zd.time_zone().to_offset(ts), zd.datetime() == o.to_datetime(ts), o.seconds(), ts.as_nanosecond())
    });
    match r {
        Err(p) => cx.violation(&format!("C13-invariant/panic@{}", p.loc()), || case(), || "no panic".into(), || p.what.clone()),
        Ok((a, b, o, t)) => {
            // the value itself: in range and normalised (second and nanosecond of the instant with the same sign), so that
            // ==, ordering, hashing and as_second()/subsec_nanosecond() agree with the instant it denotes
            if let Err(e) = crate::c05::V::Zoned(zd.clone()).in_range() {
                cx.violation(&format!("C13-invariant/value-not-in-range-or-denormalized[{}]", what), || case(), || "a normalised in-range value".into(), || e.clone());
            }
            if !a {
                cx.violation(&format!("C13-invariant/offset-not-the-zone's-offset[{}]", what), || case(), || "offset() == time_zone().to_offset(timestamp())".into(), || format!("offset {}", o));
            }
            if !b {
                cx.violation(&format!("C13-invariant/datetime-not-instant-plus-offset[{}]", what), || case(), || "datetime() == offset().to_datetime(timestamp())".into(), || format!("{}", zd));
            }
            let mo = z.model.utoff(t.div_euclid(NS) as i64);
            if o != mo && !z.model.d10_window(t.div_euclid(NS) as i64) {
                cx.violation(&format!("C13-invariant/offset-differs-from-zone-data[{}]", what), || case(), || format!("{}", mo), || format!("{}", o));
            }
        }
    }
}

fn model_add(z: &ZoneCase, t: i128, op: &Operand, negate: bool) -> Option<Option<i128>> {
    let inr = |x: i128| if (MIN_NS..=MAX_NS).contains(&x) { Some(x) } else { None };
    match op {
        Operand::SDur(n) => Some(inr(if negate { t - n } else { t + n })),
        Operand::UDur(n) => Some(inr(if negate { t - *n as i128 } else { t + *n as i128 })),
        Operand::Span(s) => {
            let s = if negate { s.neg() } else { *s };
            if !s.has_calendar() {
                return Some(inr(t + s.time_ns()));
            }
            let mut calpart = s;
            for i in 0..=arith::HOUR {
                calpart.u[i] = 0;
            }
            let c = model_civil(z, t);
            let Some(c2) = arith::add_datetime(c, &calpart) else { return Some(None) };
            match model_compatible(z, c2)? {
                None => Some(None),
                Some(inst) => Some(inr(inst + s.time_ns())),
            }
        }
    }
}

macro_rules! with_op {
    ($op:expr, |$x:ident| $body:expr) => {
        match $op {
            Operand::Span(s) => match s.to_jiff() {
                Ok($x) => Some($body),
                Err(_) => None,
            },
            Operand::SDur(n) => {
                let $x = sdur_of_ns(*n);
                Some($body)
            }
            Operand::UDur(n) => {
                let $x = udur_of_ns(*n);
                Some($body)
            }
        }
    };
}

fn enc_op(op: &Operand) -> String {
    match op {
        Operand::Span(s) => format!("S{}", s.encode()),
        Operand::SDur(n) => format!("D{}", n),
        Operand::UDur(n) => format!("U{}", n),
    }
}

pub fn check_arith(cx: &mut Ctx, z: &ZoneCase, t: i128, op: &Operand) {
    let Some(ts) = ts_from_ns(t) else { return };
    let zd = Zoned::new(ts, z.tz.clone());
    let case = || format!("add|{}|{}|{}", z.id, t, enc_op(op));
    let sign = match op {
        Operand::Span(s) => s.sign(),
        Operand::SDur(n) => n.signum() as i64,
        Operand::UDur(n) => (*n > 0) as i64,
    };
    for negate in [false, true] {
        let Some(exp) = model_add(z, t, op, negate) else {
            cx.count("outside_trichotomy_no_verdict", 1);
            continue;
        };
        let name = if negate { "sub" } else { "add" };
        cx.eval(2);
        let r = guard(|| {
            with_op!(op, |x| {
                let c = if negate { zd.checked_sub(x) } else { zd.checked_add(x) }.ok();
                let s = if negate { zd.saturating_sub(x) } else { zd.saturating_add(x) };
                (c, s)
            })
        });
        match r {
            Err(p) => cx.violation(&format!("Zoned::checked_{}/panic@{}", name, p.loc()), case, || format!("{:?}", exp), || p.what.clone()),
            Ok(None) => {}
            Ok(Some((c, s))) => {
                let got = c.as_ref().map(|x| x.timestamp().as_nanosecond());
                if got != exp {
                    cx.violation(&format!("Zoned::checked_{}[{}]", name, z.src), case, || format!("{:?}", exp), || format!("{:?} ({:?})", got, c));
                } else if let Some(x) = &c {
                    if x.time_zone() != zd.time_zone() {
                        cx.violation(&format!("Zoned::checked_{}/time-zone-changed", name), case, || "same zone".into(), || format!("{:?}", x.time_zone()));
                    }
                    zoned_invariant(cx, z, x, "checked_add/sub", &case);
                }
                let eff = if negate { -sign } else { sign };
                let sexp = exp.unwrap_or(if eff < 0 { MIN_NS } else { MAX_NS });
                if s.timestamp().as_nanosecond() != sexp || s.time_zone() != zd.time_zone() {
                    cx.violation(&format!("Zoned::saturating_{}[{}]", name, z.src), case, || format!("{} same zone", sexp), || format!("{:?}", s));
                } else {
                    zoned_invariant(cx, z, &s, "saturating_add/sub", &case);
                }
                if let Some(e) = exp {
                    cx.eval(1);
                    let o = guard(|| with_op!(op, |x| if negate { &zd - x } else { &zd + x }.timestamp().as_nanosecond()));
                    match o {
                        Ok(Some(g)) if g == e => {}
                        Ok(g) => cx.violation(&format!("&Zoned {} operator", if negate { "-" } else { "+" }), case, || format!("{}", e), || format!("{:?}", g)),
                        Err(p) => cx.violation(&format!("&Zoned operator/panic@{}", p.loc()), case, || format!("{}", e), || p.what.clone()),
                    }
                    // every spelling of the operation: by value, and the assigning operators (one impl per operand type each)
                    let o = guard(|| {
                        with_op!(op, |x| {
                            // (Zoned implements the binary operators for &Zoned only; the assigning ones for Zoned)
                            let by_value = {
                                let keep = zd.clone();
                                if negate { &keep - x } else { &keep + x }.timestamp().as_nanosecond()
                            };
                            let mut m = zd.clone();
                            if negate {
                                m -= x;
                            } else {
                                m += x;
                            }
                            (by_value, m.timestamp().as_nanosecond())
                        })
                    });
                    let kind = match op {
                        Operand::Span(_) => "Span",
                        Operand::SDur(_) => "SignedDuration",
                        Operand::UDur(_) => "std Duration",
                    };
                    match o {
                        Ok(Some((v, a))) => {
                            if v != e {
                                cx.violation(&format!("&Zoned {} {} (clone)", if negate { "-" } else { "+" }, kind), case, || format!("{}", e), || format!("{}", v));
                            }
                            if a != e {
                                cx.violation(&format!("Zoned {}= {}", if negate { "-" } else { "+" }, kind), case, || format!("{}", e), || format!("{}", a));
                            }
                        }
                        Ok(None) => {}
                        Err(p) => cx.violation(&format!("Zoned assigning operator/panic@{}", p.loc()), case, || format!("{}", e), || p.what.clone()),
                    }
                }
            }
        }
    }
}

/// Calendar helpers: tomorrow, yesterday, first/last of month/year, start/end of day, with().
pub fn check_helpers(cx: &mut Ctx, z: &ZoneCase, t: i128, r: &mut Rng) {
    let Some(ts) = ts_from_ns(t) else { return };
    let zd = Zoned::new(ts, z.tz.clone());
    let case = || format!("help|{}|{}", z.id, t);
    let c = model_civil(z, t);
    let (y, m, _d) = c.ymd();
    let sec = t.div_euclid(NS) as i64;
    let o0 = z.model.utoff(sec);
    let shift_day = |day: i64| -> Option<Option<i128>> {
        if !(cal::MIN_DAY..=cal::MAX_DAY).contains(&day) {
            return Some(None);
        }
        model_compatible(z, Civ { day, nod: c.nod })
    };
    let dim = cal::days_in_month(y, m);
    let mut items: Vec<(&'static str, Option<Option<i128>>, Box<dyn Fn(&Zoned) -> Result<Zoned, jiff::Error>>)> = vec![
        ("tomorrow", shift_day(c.day + 1), Box::new(|x: &Zoned| x.tomorrow())),
        ("yesterday", shift_day(c.day - 1), Box::new(|x: &Zoned| x.yesterday())),
        ("first_of_month", shift_day(cal::days_from_civil(y, m, 1)), Box::new(|x: &Zoned| x.first_of_month())),
        ("last_of_month", shift_day(cal::days_from_civil(y, m, dim)), Box::new(|x: &Zoned| x.last_of_month())),
        ("first_of_year", shift_day(cal::days_from_civil(y, 1, 1)), Box::new(|x: &Zoned| x.first_of_year())),
        ("last_of_year", shift_day(cal::days_from_civil(y, 12, 31)), Box::new(|x: &Zoned| x.last_of_year())),
    ];
    // start of day: first instant whose civil date is that day
    let straddle = gap_straddles_midnight(z, c.day);
    let sod = model_start_of_day(z, c.day).map(|s| {
        let s = s as i128 * NS;
        if (MIN_NS..=MAX_NS).contains(&s) {
            Some(s)
        } else {
            None
        }
    });
    // at the very edges of the range the intermediate civil midnight may not
    // be a representable instant: no verdict there
    if c.day < cal::MAX_DAY - 2 && c.day > cal::MIN_DAY + 2 {
        items.push((if straddle { "start_of_day[gap-straddles-midnight]" } else { "start_of_day" }, sod, Box::new(|x: &Zoned| x.start_of_day())));
    }
    // end of day as documented: last nanosecond of the civil day, earlier instant in a gap, later in a fold
    let eod_c = Civ { day: c.day, nod: NS_DAY as i64 - 1 };
    let eod = match model_classify(&z.model, eod_c) {
        Class::Unambiguous(o) => Some(eod_c.to_ns() - o as i128 * NS),
        Class::Gap(_, a) | Class::Fold(_, a) => Some(eod_c.to_ns() - a as i128 * NS),
        _ => None,
    }
    .map(|x| if (MIN_NS..=MAX_NS).contains(&x) { Some(x) } else { None });
    items.push(("end_of_day", eod, Box::new(|x: &Zoned| x.end_of_day())));
    // with(): one changed field, offset kept when still valid, else compatible
    let field = r.below(5);
    let (newc, wname): (Option<Civ>, &'static str) = match field {
        0 => {
            let nd = r.range(1, 31);
            (if nd <= dim { Some(Civ { day: cal::days_from_civil(y, m, nd), nod: c.nod }) } else { None }, "with().day")
        }
        1 => {
            let h = r.range(0, 23);
            (Some(Civ { day: c.day, nod: c.nod % 3_600_000_000_000 + h * 3_600_000_000_000 }), "with().hour")
        }
        2 => {
            let mi = r.range(0, 59);
            let h = c.nod / 3_600_000_000_000;
            (Some(Civ { day: c.day, nod: h * 3_600_000_000_000 + mi * 60_000_000_000 + c.nod % 60_000_000_000 }), "with().minute")
        }
        3 => {
            let nm = r.range(1, 12);
            let d = c.ymd().2;
            (if d <= cal::days_in_month(y, nm) { Some(Civ { day: cal::days_from_civil(y, nm, d), nod: c.nod }) } else { None }, "with().month")
        }
        _ => {
            let ny = (y + r.range(-3, 3)).clamp(-9999, 9999);
            let (_, mm, d) = c.ymd();
            (if d <= cal::days_in_month(ny, mm) { Some(Civ { day: cal::days_from_civil(ny, mm, d), nod: c.nod }) } else { None }, "with().year")
        }
    };
    let wexp: Option<Option<i128>> = match newc {
        None => Some(None),
        Some(nc) => {
            let keep = nc.to_ns() - o0 as i128 * NS;
            if z.model.utoff(keep.div_euclid(NS) as i64) == o0 {
                Some(if (MIN_NS..=MAX_NS).contains(&keep) { Some(keep) } else { None })
            } else {
                model_compatible(z, nc)
            }
        }
    };
    let (nv, fld) = match (newc, field) {
        (_, 0) => (newc.map(|n| n.ymd().2).unwrap_or(31), 0),
        (Some(n), 1) => (n.nod / 3_600_000_000_000, 1),
        (Some(n), 2) => (n.nod / 60_000_000_000 % 60, 2),
        (Some(n), 3) => (n.ymd().1, 3),
        (Some(n), _) => (n.ymd().0, 4),
        (None, 3) => (0, 9),
        (None, _) => (0, 9),
    };
    if fld != 9 {
        items.push((
            wname,
            wexp,
            Box::new(move |x: &Zoned| match fld {
                0 => x.with().day(nv as i8).build(),
                1 => x.with().hour(nv as i8).build(),
                2 => x.with().minute(nv as i8).build(),
                3 => x.with().month(nv as i8).build(),
                _ => x.with().year(nv as i16).build(),
            }),
        ));
    }
    for (name, exp, f) in items {
        let Some(exp) = exp else {
            cx.count("outside_trichotomy_no_verdict", 1);
            continue;
        };
        cx.eval(1);
        match guard(|| f(&zd).ok()) {
            Err(p) => cx.violation(&format!("Zoned::{}/panic@{}", name, p.loc()), case, || format!("{:?}", exp), || p.what.clone()),
            Ok(g) => {
                let gt = g.as_ref().map(|x| x.timestamp().as_nanosecond());
                if gt != exp {
                    cx.violation(&format!("Zoned::{}[{}]", name, z.src), case, || format!("{:?}", exp), || format!("{:?} ({:?})", gt, g));
                } else if let Some(x) = &g {
                    if x.time_zone() != zd.time_zone() {
                        cx.violation(&format!("Zoned::{}/time-zone-changed", name), case, || "same zone".into(), || format!("{:?}", x));
                    }
                    zoned_invariant(cx, z, x, name, &case);
                }
            }
        }
    }
}

fn gen_zoned_operand(r: &mut Rng) -> Operand {
    let pick = |r: &mut Rng, unit: usize, vals: &[i64]| MSpan::one(unit, *r.pick(vals));
    match r.below(12) {
        0 => Operand::Span(pick(r, arith::DAY, &[1, -1, 2, -2, 7, -7, 30, -30, 365, -365])),
        1 => Operand::Span(pick(r, arith::HOUR, &[24, -24, 23, -23, 25, -25, 1, -1, 48, -48])),
        2 => Operand::Span(pick(r, arith::WEEK, &[1, -1, 2, -4, 52])),
        3 => Operand::Span(pick(r, arith::MONTH, &[1, -1, 2, -3, 6, 12, -12])),
        4 => Operand::Span(pick(r, arith::YEAR, &[1, -1, 4, -4, 100])),
        5 => {
            // mixed calendar + time, one sign
            let sign = if r.chance(1, 2) { 1 } else { -1 };
            let mut s = MSpan::zero();
            s.u[arith::DAY] = sign * r.range(0, 40);
            s.u[arith::MONTH] = sign * r.range(0, 14);
            s.u[arith::HOUR] = sign * r.range(0, 50);
            s.u[arith::MIN] = sign * r.range(0, 120);
            s.u[arith::NANO] = sign * r.range(0, 2_000_000_000);
            Operand::Span(s)
        }
        6 => Operand::Span(gen::gen_span(r, &gen::ALL_UNITS, false)),
        7 => Operand::Span(gen::gen_span(r, &gen::TIME_UNITS, false)),
        8 => Operand::SDur(r.range(-200_000, 200_000) as i128 * NS + r.range(-999_999_999, 999_999_999) as i128),
        9 => Operand::SDur(gen::gen_sdur_ns(r)),
        10 => Operand::UDur(r.below(400_000) as u128 * NS as u128 + r.below(1_000_000_000) as u128),
        _ => Operand::Span(pick(r, arith::DAY, &[1, -1])),
    }
}

pub fn check_zone(cx: &mut Ctx, z: &ZoneCase, years: &[i64], r: &mut Rng, n: usize) {
    let limit = if z.model.d10_zone() { Some(z.model.rule_from().max(zones::TS_MIN)) } else { None };
    let mut changes = z.model.changes(zones::TS_MIN, zones::TS_MAX, years);
    if let Some(l) = limit {
        changes.retain(|&t| t < l - 800 * 86400);
        cx.count("zones_rule_part_skipped_D10", 1);
    }
    let zh = hash64(z.id.as_bytes());
    // the calendar helpers exactly at, just before and just after transitions (an instant that *is* a transition is the
    // boundary case of every "walk back to the previous transition")
    for &c in changes.iter().rev().take(40).chain(changes.iter().take(20)) {
        for d in [0i128, -1, 1, -(NS), NS] {
            let t = (c as i128 * NS + d).clamp(MIN_NS, MAX_NS);
            check_helpers(cx, z, t, r);
            cx.count("helper_probes_at_transitions", 1);
        }
    }
    for k in 0..n {
        let t: i128 = match (changes.is_empty(), k % 8) {
            (false, 0..=4) => {
                // within +-2 days of a transition
                let c = *r.pick(&changes);
                (c as i128 + r.range(-172_800, 172_800) as i128) * NS + *r.pick(&[0i64, 0, 1, 999_999_999, 500_000_000]) as i128
            }
            (false, 5) => {
                // aimed: some days/months before a gap or fold so that a calendar step lands inside it
                let c = *r.pick(&changes);
                let o1 = z.model.utoff(c - 1) as i64;
                let o2 = z.model.utoff(c) as i64;
                let wall = c + o1.min(o2) + r.range(0, (o1 - o2).abs().max(1));
                let back = *r.pick(&[1i64, 7, 28, 30, 31, 365, -1, -7]);
                let start_wall = wall - back * 86400;
                let cc = Civ::from_ns(start_wall as i128 * NS);
                match model_compatible(z, cc) {
                    Some(Some(t)) => t,
                    _ => (c as i128) * NS,
                }
            }
            (_, 6) => {
                // month ends / leap days
                let day = gen::gen_day(r);
                let cc = Civ { day, nod: gen::gen_nod(r) };
                match model_compatible(z, cc) {
                    Some(Some(t)) => t,
                    _ => r.range128(MIN_NS, MAX_NS),
                }
            }
            _ => match r.below(4) {
                0 => MIN_NS + r.below(400_000_000_000_000) as i128,
                1 => MAX_NS - r.below(400_000_000_000_000) as i128,
                _ => r.range128(MIN_NS, MAX_NS),
            },
        };
        let t = t.clamp(MIN_NS, MAX_NS);
        if let Some(l) = limit {
            if t.div_euclid(NS) as i64 > l - 800 * 86400 {
                continue;
            }
        }
        let op = if k % 8 == 5 { Operand::Span(MSpan::one(arith::DAY, *r.pick(&[1i64, 7, 28, 30, 31, 365, -1, -7]))) } else { gen_zoned_operand(r) };
        if limit.is_some() {
            // keep results away from the rule part too
            if let Operand::Span(s) = &op {
                if s.u[arith::YEAR].abs() > 1 || s.u[arith::MONTH].abs() > 14 || s.u[arith::DAY].abs() > 400 || s.u[arith::WEEK].abs() > 50 || s.u[arith::HOUR].abs() > 9000 || s.u[arith::MIN].abs() > 500_000 || s.u[arith::SEC].abs() > 30_000_000 || s.u[2].abs() > 30_000_000_000 || s.u[1].abs() > 30_000_000_000_000 || s.u[0].abs() > 30_000_000_000_000_000 {
                    continue;
                }
            } else {
                continue;
            }
        }
        check_arith(cx, z, t, &op);
        if k % 3 == 0 {
            check_helpers(cx, z, t, r);
        }
        if k % 2 == 0 {
            cx.nontrivial(crate::rng::hash_mix(zh, hash64(format!("{}|{}", t, enc_op(&op)).as_bytes())));
        }
        if k == 5 {
            cx.sample(|| format!("{} at {} ns + {} -> {:?}", z.id, t, enc_op(&op), model_add(z, t, &op, false)));
        }
    }
    cx.count("zones", 1);
}

pub fn run(cx: &mut Ctx) {
    if let Some(case) = cx.case.clone() {
        return replay(cx, &case);
    }
    let mut r = Rng::new(cx.shard_seed());
    let years = zones::probe_years(&mut Rng::new(cx.seed), false);
    let zs = crate::c04::gather_zones(cx, 160, 2000);
    let cor = tzmon::corroborate_all(&zs, &cx.work, &years);
    let n = if cx.thorough { 20_000 } else { 1_500 };
    for (z, c) in zs.iter().zip(cor.iter()) {
        if !c.ok() {
            cx.count("zones_uncorroborated_no_verdict", 1);
            continue;
        }
        check_zone(cx, z, &years, &mut r, if z.src == "posix" { n / 4 } else { n });
    }
}

fn replay(cx: &mut Ctx, case: &str) {
    let p: Vec<&str> = case.splitn(4, '|').collect();
    let z = match zones::resolve(p.get(1).copied().unwrap_or(""), &cx.work) {
        Ok(z) => z,
        Err(e) => return cx.inconclusive(e),
    };
    let t: i128 = p.get(2).and_then(|x| x.parse().ok()).unwrap_or(0);
    match p[0] {
        "add" => {
            let s = p.get(3).copied().unwrap_or("");
            let (k, rest) = s.split_at(1.min(s.len()));
            let op = match k {
                "S" => MSpan::decode(rest).map(Operand::Span),
                "D" => rest.parse().ok().map(Operand::SDur),
                "U" => rest.parse().ok().map(Operand::UDur),
                _ => None,
            };
            if let Some(op) = op {
                println!("start civil {:?} {:?}; model add -> {:?} sub -> {:?}", model_civil(&z, t).ymd(), model_civil(&z, t).hms(), model_add(&z, t, &op, false), model_add(&z, t, &op, true));
                check_arith(cx, &z, t, &op);
            }
        }
        "help" => {
            // the with() field is seeded; replay all variants
            for s in 0..40 {
                check_helpers(cx, &z, t, &mut Rng::new(s));
            }
        }
        _ => cx.inconclusive("bad case"),
    }
    println!("replay {}: evaluations={} violations={}", case, cx.evals, cx.viol_total);
}

//! Reference time zone model: an RFC 8536 TZif reader and a POSIX TZ rule
//! evaluator, giving `instant -> (utoff, isdst, abbrev)` in plain integer
//! arithmetic. No fattening, no caches, no shared code with jiff.

use crate::cal;

#[derive(Clone, Debug, PartialEq, Eq)]
pub struct LType {
    pub utoff: i32,
    pub isdst: bool,
    pub abbr: String,
}

#[derive(Clone, Debug, PartialEq, Eq)]
pub enum Rule {
    /// Jn, 1..=365, Feb 29 never counted
    J(i64),
    /// n, 0..=365, leap days counted
    N(i64),
    /// Mm.w.d  (d: 0 = Sunday)
    M(i64, i64, i64),
}

#[derive(Clone, Debug, PartialEq, Eq)]
pub struct PosixDst {
    pub abbr: String,
    pub utoff: i32,
    pub start: Rule,
    pub start_time: i64,
    pub end: Rule,
    pub end_time: i64,
}

#[derive(Clone, Debug, PartialEq, Eq)]
pub struct Posix {
    pub std_abbr: String,
    pub std_utoff: i32,
    pub dst: Option<PosixDst>,
}

#[derive(Clone, Debug)]
pub struct Tzif {
    pub version: u8,
    pub trans: Vec<(i64, usize)>,
    pub types: Vec<LType>,
    pub footer: Option<Posix>,
    pub footer_raw: String,
}

#[derive(Clone, Debug)]
pub enum Zone {
    Tzif(Tzif),
    Posix(Posix),
    Fixed(i32),
}

#[derive(Clone, Debug, PartialEq, Eq)]
pub struct Info {
    pub utoff: i32,
    pub isdst: bool,
    pub abbr: String,
}

// ---------------------------------------------------------------------------
// POSIX TZ parsing

struct P<'a> {
    b: &'a [u8],
    i: usize,
}

impl<'a> P<'a> {
    fn peek(&self) -> Option<u8> {
        self.b.get(self.i).copied()
    }
    fn eat(&mut self, c: u8) -> bool {
        if self.peek() == Some(c) {
            self.i += 1;
            true
        } else {
            false
        }
    }
    fn abbr(&mut self) -> Result<String, String> {
        if self.eat(b'<') {
            let s = self.i;
            while let Some(c) = self.peek() {
                if c == b'>' {
                    break;
                }
                self.i += 1;
            }
            let r = String::from_utf8_lossy(&self.b[s..self.i]).into_owned();
            if !self.eat(b'>') {
                return Err("unterminated <".into());
            }
            Ok(r)
        } else {
            let s = self.i;
            while let Some(c) = self.peek() {
                if c.is_ascii_alphabetic() {
                    self.i += 1;
                } else {
                    break;
                }
            }
            if self.i - s < 3 {
                return Err("abbr too short".into());
            }
            Ok(String::from_utf8_lossy(&self.b[s..self.i]).into_owned())
        }
    }
    fn num(&mut self) -> Result<i64, String> {
        let s = self.i;
        let mut v: i64 = 0;
        while let Some(c) = self.peek() {
            if c.is_ascii_digit() {
                v = v.checked_mul(10).and_then(|v| v.checked_add((c - b'0') as i64)).ok_or("overflow")?;
                self.i += 1;
            } else {
                break;
            }
        }
        if s == self.i {
            return Err(format!("expected number at {}", s));
        }
        Ok(v)
    }
    /// [+-]h[:m[:s]] -> seconds (sign as written)
    fn hms(&mut self) -> Result<i64, String> {
        let mut sign = 1;
        if self.eat(b'-') {
            sign = -1;
        } else {
            self.eat(b'+');
        }
        let h = self.num()?;
        let mut m = 0;
        let mut s = 0;
        if self.eat(b':') {
            m = self.num()?;
            if self.eat(b':') {
                s = self.num()?;
            }
        }
        Ok(sign * (h * 3600 + m * 60 + s))
    }
    fn rule(&mut self) -> Result<(Rule, i64), String> {
        let r = if self.eat(b'J') {
            Rule::J(self.num()?)
        } else if self.eat(b'M') {
            let m = self.num()?;
            if !self.eat(b'.') {
                return Err("expected .".into());
            }
            let w = self.num()?;
            if !self.eat(b'.') {
                return Err("expected .".into());
            }
            let d = self.num()?;
            Rule::M(m, w, d)
        } else {
            Rule::N(self.num()?)
        };
        let t = if self.eat(b'/') { self.hms()? } else { 7200 };
        Ok((r, t))
    }
}

pub fn parse_posix(s: &str) -> Result<Posix, String> {
    let mut p = P { b: s.as_bytes(), i: 0 };
    let std_abbr = p.abbr()?;
    let std_off = p.hms()?;
    let std_utoff = -std_off as i32;
    if p.i == p.b.len() {
        return Ok(Posix { std_abbr, std_utoff, dst: None });
    }
    let dabbr = p.abbr()?;
    let mut dst_utoff = std_utoff + 3600;
    if p.peek() != Some(b',') && p.peek().is_some() {
        dst_utoff = -p.hms()? as i32;
    }
    if !p.eat(b',') {
        return Err("dst without rule".into());
    }
    let (start, start_time) = p.rule()?;
    if !p.eat(b',') {
        return Err("missing end rule".into());
    }
    let (end, end_time) = p.rule()?;
    if p.i != p.b.len() {
        return Err("trailing data".into());
    }
    Ok(Posix { std_abbr, std_utoff, dst: Some(PosixDst { abbr: dabbr, utoff: dst_utoff, start, start_time, end, end_time }) })
}

impl Rule {
    /// days since epoch of this rule's date in year y
    pub fn day(&self, y: i64) -> i64 {
        match *self {
            Rule::J(n) => {
                // 1..=365, Feb 29 not counted
                let jan1 = cal::days_from_civil(y, 1, 1);
                let mut d = jan1 + n - 1;
                if cal::is_leap(y) && n >= 60 {
                    d += 1;
                }
                d
            }
            Rule::N(n) => cal::days_from_civil(y, 1, 1) + n,
            Rule::M(m, w, d) => {
                let first = cal::days_from_civil(y, m, 1);
                // weekday of first: 1=Mon..7=Sun -> 0=Sun..6=Sat
                let wd_first = cal::weekday_from_days(first) % 7;
                let mut day = first + (d - wd_first).rem_euclid(7) + (w - 1) * 7;
                let dim = cal::days_in_month(y, m);
                while day >= first + dim {
                    day -= 7;
                }
                day
            }
        }
    }
}

impl Posix {
    pub fn std_info(&self) -> Info {
        Info { utoff: self.std_utoff, isdst: false, abbr: self.std_abbr.clone() }
    }
    pub fn dst_info(&self) -> Option<Info> {
        self.dst.as_ref().map(|d| Info { utoff: d.utoff, isdst: true, abbr: d.abbr.clone() })
    }
    /// UTC instants (seconds) of the DST start and end in year y.
    pub fn events(&self, y: i64) -> Option<(i64, i64)> {
        let d = self.dst.as_ref()?;
        let start = d.start.day(y) * 86400 + d.start_time - self.std_utoff as i64;
        let end = d.end.day(y) * 86400 + d.end_time - d.utoff as i64;
        Some((start, end))
    }
    pub fn is_dst(&self, t: i64) -> bool {
        if self.dst.is_none() {
            return false;
        }
        let (y, _, _) = cal::civil_from_days((t + self.std_utoff as i64).div_euclid(86400));
        // (time, is_start); at equal instants "end" sorts before "start"
        let mut ev: Vec<(i64, bool)> = Vec::with_capacity(6);
        for yy in (y - 1)..=(y + 1) {
            let (s, e) = self.events(yy).unwrap();
            // DST that ends at the instant it starts (same rule year) is an empty period: standard time throughout
            // (glibc: `t >= start && t < end`); an end that coincides with the *next* year's start is all-year DST
            if s == e {
                continue;
            }
            ev.push((s, true));
            ev.push((e, false));
        }
        ev.sort();
        let mut state = None;
        for (time, is_start) in ev {
            if time <= t {
                state = Some(is_start);
            }
        }
        // y-1's events always precede t, so `state` is set
        state.unwrap_or(false)
    }
    pub fn info(&self, t: i64) -> Info {
        if self.is_dst(t) {
            self.dst_info().unwrap()
        } else {
            self.std_info()
        }
    }

    /// Known finding D10: jiff evaluates a POSIX rule per UTC calendar year
    /// and clamps each rule transition into the rule's own year. When a rule
    /// transition of rule-year `yy` falls, in UTC, into year yy-1 or yy+1,
    /// jiff's answer is wrong between the transition instant and that year
    /// boundary. Returns true when `t` lies in such a window (with a one
    /// second guard at the boundary).
    pub fn in_crossing_window(&self, t: i64) -> bool {
        if self.dst.is_none() {
            return false;
        }
        let (y, _, _) = cal::civil_from_days(t.div_euclid(86400));
        for yy in (y - 1)..=(y + 1) {
            let (s, e) = self.events(yy).unwrap();
            for ev in [s, e] {
                let (uy, _, _) = cal::civil_from_days(ev.div_euclid(86400));
                if uy < yy {
                    let boundary = cal::days_from_civil(yy, 1, 1) * 86400;
                    if t >= ev - 1 && t <= boundary {
                        return true;
                    }
                } else if uy > yy {
                    let boundary = cal::days_from_civil(yy + 1, 1, 1) * 86400;
                    if t >= boundary - 1 && t <= ev {
                        return true;
                    }
                }
            }
        }
        false
    }

    /// Does any rule transition fall into a different calendar year than its
    /// rule date, either in UTC or on the wall clock (before or after the
    /// change)? Such zones are subject to known finding D10.
    pub fn has_year_crossing(&self) -> bool {
        let Some(d) = &self.dst else { return false };
        let mut ys: Vec<i64> = (2000..2028).collect();
        ys.extend([1900, -9999, 9999, 0, 1]);
        let yr = |secs: i64| cal::civil_from_days(secs.div_euclid(86400)).0;
        for yy in ys {
            let (s, e) = self.events(yy).unwrap();
            let ws = d.start.day(yy) * 86400 + d.start_time; // wall clock (std) of the start
            let we = d.end.day(yy) * 86400 + d.end_time; // wall clock (dst) of the end
            let diff = (d.utoff - self.std_utoff) as i64;
            for v in [s, e, ws, ws + diff, we, we - diff, s - 1, e - 1, ws - 1, we - 1] {
                if yr(v) != yy {
                    return true;
                }
            }
        }
        false
    }
}

// ---------------------------------------------------------------------------
// TZif parsing (RFC 8536)

fn be32(b: &[u8], i: usize) -> Result<u32, String> {
    b.get(i..i + 4).map(|x| u32::from_be_bytes([x[0], x[1], x[2], x[3]])).ok_or_else(|| "truncated".to_string())
}
fn be64(b: &[u8], i: usize) -> Result<i64, String> {
    b.get(i..i + 8).map(|x| i64::from_be_bytes([x[0], x[1], x[2], x[3], x[4], x[5], x[6], x[7]])).ok_or_else(|| "truncated".to_string())
}

struct Hdr {
    version: u8,
    isutcnt: usize,
    isstdcnt: usize,
    leapcnt: usize,
    timecnt: usize,
    typecnt: usize,
    charcnt: usize,
}

fn hdr(b: &[u8], at: usize) -> Result<Hdr, String> {
    if b.get(at..at + 4) != Some(b"TZif") {
        return Err("bad magic".into());
    }
    let version = *b.get(at + 4).ok_or("truncated")?;
    let c = |k: usize| be32(b, at + 20 + 4 * k).map(|v| v as usize);
    Ok(Hdr { version, isutcnt: c(0)?, isstdcnt: c(1)?, leapcnt: c(2)?, timecnt: c(3)?, typecnt: c(4)?, charcnt: c(5)? })
}

fn block_len(h: &Hdr, tsz: usize) -> usize {
    h.timecnt * tsz + h.timecnt + h.typecnt * 6 + h.charcnt + h.leapcnt * (tsz + 4) + h.isstdcnt + h.isutcnt
}

pub fn parse_tzif(b: &[u8]) -> Result<Tzif, String> {
    let h1 = hdr(b, 0)?;
    let (h, at, tsz) = if h1.version == 0 {
        (h1, 44usize, 4usize)
    } else {
        let at2 = 44 + block_len(&h1, 4);
        let h2 = hdr(b, at2)?;
        (h2, at2 + 44, 8usize)
    };
    let mut p = at;
    let mut times = Vec::with_capacity(h.timecnt);
    for k in 0..h.timecnt {
        let t = if tsz == 8 { be64(b, p + 8 * k)? } else { be32(b, p + 4 * k)? as i32 as i64 };
        times.push(t);
    }
    p += h.timecnt * tsz;
    let idx = b.get(p..p + h.timecnt).ok_or("truncated idx")?.to_vec();
    p += h.timecnt;
    let mut raw_types = Vec::new();
    for k in 0..h.typecnt {
        let q = p + 6 * k;
        let utoff = be32(b, q)? as i32;
        let isdst = *b.get(q + 4).ok_or("truncated")? != 0;
        let ai = *b.get(q + 5).ok_or("truncated")? as usize;
        raw_types.push((utoff, isdst, ai));
    }
    p += h.typecnt * 6;
    let chars = b.get(p..p + h.charcnt).ok_or("truncated chars")?;
    p += h.charcnt;
    p += h.leapcnt * (tsz + 4) + h.isstdcnt + h.isutcnt;
    let mut types = Vec::new();
    for (utoff, isdst, ai) in raw_types {
        let rest = chars.get(ai..).ok_or("abbr idx")?;
        let end = rest.iter().position(|&c| c == 0).ok_or("abbr nul")?;
        types.push(LType { utoff, isdst, abbr: String::from_utf8_lossy(&rest[..end]).into_owned() });
    }
    let mut trans = Vec::new();
    for (k, t) in times.iter().enumerate() {
        let ti = idx[k] as usize;
        if ti >= types.len() {
            return Err("type idx".into());
        }
        trans.push((*t, ti));
    }
    let mut footer_raw = String::new();
    let mut footer = None;
    if tsz == 8 {
        if b.get(p) != Some(&b'\n') {
            return Err("missing footer".into());
        }
        let rest = &b[p + 1..];
        let end = rest.iter().position(|&c| c == b'\n').ok_or("footer nl")?;
        footer_raw = String::from_utf8_lossy(&rest[..end]).into_owned();
        if !footer_raw.is_empty() {
            footer = Some(parse_posix(&footer_raw)?);
        }
    }
    if types.is_empty() {
        return Err("no types".into());
    }
    Ok(Tzif { version: h.version, trans, types, footer, footer_raw })
}

impl Tzif {
    pub fn info(&self, t: i64) -> Info {
        let n = self.trans.len();
        if n == 0 {
            if let Some(f) = &self.footer {
                return f.info(t);
            }
            return self.tinfo(0);
        }
        if t < self.trans[0].0 {
            return self.tinfo(0);
        }
        // last i with trans[i].0 <= t
        let i = self.trans.partition_point(|&(tt, _)| tt <= t) - 1;
        if i == n - 1 {
            if let Some(f) = &self.footer {
                return f.info(t);
            }
        }
        self.tinfo(self.trans[i].1)
    }
    fn tinfo(&self, i: usize) -> Info {
        let t = &self.types[i];
        Info { utoff: t.utoff, isdst: t.isdst, abbr: t.abbr.clone() }
    }
}

impl Zone {
    pub fn info(&self, t: i64) -> Info {
        match self {
            Zone::Tzif(z) => z.info(t),
            Zone::Posix(p) => p.info(t),
            Zone::Fixed(o) => Info { utoff: *o, isdst: false, abbr: String::new() },
        }
    }
    pub fn utoff(&self, t: i64) -> i32 {
        self.info(t).utoff
    }

    /// All instants in [lo, hi] at which the info *may* change: explicit
    /// transitions and the rule transitions of the given years.
    pub fn candidates(&self, lo: i64, hi: i64, years: &[i64]) -> Vec<i64> {
        let mut v = Vec::new();
        let mut rule: Option<(&Posix, i64)> = None; // (rule, valid from)
        match self {
            Zone::Tzif(z) => {
                for &(t, _) in &z.trans {
                    if t >= lo && t <= hi {
                        v.push(t);
                    }
                }
                if let Some(f) = &z.footer {
                    rule = Some((f, z.trans.last().map(|x| x.0).unwrap_or(i64::MIN)));
                }
            }
            Zone::Posix(p) => rule = Some((p, i64::MIN)),
            Zone::Fixed(_) => {}
        }
        if let Some((p, from)) = rule {
            for &y in years {
                if let Some((s, e)) = p.events(y) {
                    for t in [s, e] {
                        if t >= lo && t <= hi && t >= from {
                            v.push(t);
                        }
                    }
                }
            }
        }
        v.sort();
        v.dedup();
        v
    }

    /// The subset of `candidates` at which the info really changes.
    pub fn changes(&self, lo: i64, hi: i64, years: &[i64]) -> Vec<i64> {
        self.candidates(lo, hi, years).into_iter().filter(|&t| t > i64::MIN && self.info(t - 1) != self.info(t)).collect()
    }

    /// The finite set of offsets this zone can ever assign.
    pub fn offsets(&self) -> Vec<i32> {
        let mut v = Vec::new();
        match self {
            Zone::Tzif(z) => {
                for t in &z.types {
                    v.push(t.utoff);
                }
                if let Some(f) = &z.footer {
                    v.push(f.std_utoff);
                    if let Some(d) = &f.dst {
                        v.push(d.utoff);
                    }
                }
            }
            Zone::Posix(p) => {
                v.push(p.std_utoff);
                if let Some(d) = &p.dst {
                    v.push(d.utoff);
                }
            }
            Zone::Fixed(o) => v.push(*o),
        }
        v.sort();
        v.dedup();
        v
    }

    pub fn posix_rule(&self) -> Option<&Posix> {
        match self {
            Zone::Tzif(z) => z.footer.as_ref(),
            Zone::Posix(p) => Some(p),
            Zone::Fixed(_) => None,
        }
    }
    /// instant from which the POSIX rule applies
    pub fn rule_from(&self) -> i64 {
        match self {
            Zone::Tzif(z) => z.trans.last().map(|x| x.0).unwrap_or(i64::MIN),
            _ => i64::MIN,
        }
    }
    /// Known finding D10 applies to lookups at this instant.
    pub fn d10_window(&self, t: i64) -> bool {
        match self.posix_rule() {
            Some(p) => t >= self.rule_from().saturating_sub(1) && p.in_crossing_window(t),
            None => false,
        }
    }
    pub fn d10_zone(&self) -> bool {
        self.posix_rule().map(|p| p.has_year_crossing()).unwrap_or(false)
    }

    /// First year for which rule transitions apply (None: no rule).
    pub fn rule_start_year(&self) -> Option<i64> {
        match self {
            Zone::Tzif(z) => {
                let f = z.footer.as_ref()?;
                f.dst.as_ref()?;
                let last = z.trans.last().map(|x| x.0).unwrap_or(-377705023201);
                Some(cal::civil_from_days(last.max(-377705023201).div_euclid(86400)).0)
            }
            Zone::Posix(p) => {
                p.dst.as_ref()?;
                Some(-9999)
            }
            Zone::Fixed(_) => None,
        }
    }
}

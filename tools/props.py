"""Per-property configuration of the driver: stages (flavour + harness args),
preparation steps, offline checkers, coverage floors, evidence rule text."""
import os, subprocess, shutil, glob, json

ROOT = os.path.dirname(os.path.dirname(os.path.abspath(__file__)))


def S(flavour, *args, **kw):
    d = {'flavour': flavour, 'args': list(args)}
    d.update(kw)
    return d


# ---------------------------------------------------------------------------
# preparation steps

def prep_synth(work, seed, tier):
    """Compile the hand-written and the seeded zic sources, slim and fat."""
    import zicgen
    src_dir = os.path.join(ROOT, 'zonesrc')
    out = os.path.join(work, 'synth')
    shutil.rmtree(out, ignore_errors=True)
    os.makedirs(out)
    gen = os.path.join(out, 'generated.zi')
    with open(gen, 'w') as f:
        f.write(zicgen.generate(seed, 24 if tier == 'quick' else 96))
    srcs = sorted(glob.glob(os.path.join(src_dir, '*.zi'))) + [gen]
    for mode in ('slim', 'fat'):
        d = os.path.join(out, mode)
        os.makedirs(d)
        p = subprocess.run(['/usr/sbin/zic', '-b', mode, '-d', d] + srcs, stdout=subprocess.PIPE, stderr=subprocess.STDOUT, text=True)
        if p.returncode != 0:
            raise RuntimeError('zic failed: ' + p.stdout[-800:])
    os.remove(gen)


PREPS = {'synth': prep_synth}
POSTS = {}

COMMON_ASSUME = [
    'reference models in /verif/harness/src/{cal,tzref,arith}.rs are the trusted base; cal is cross-checked odometer vs Hinnant over the full range at start-up',
    'only executions actually produced are judged: held-on-observed, never verified',
]

PROPS = {}

PROPS['C01'] = dict(
    sub='c01',
    quick=[S('rel'), S('dbg')],
    thorough=[S('rel'), S('dbg')],
    rule='exhaustive sweep of all 7,304,484 dates (flavours rel and dbg) against a day-by-day odometer; '
         'all (y,m,d) constructor triples incl. invalid; all ISO (y,w,wd) triples; nth_weekday_of_month for every month x nth in -6..=6 x 7 weekdays; seeded nth_weekday; '
         'the jiff-static copy of itime.rs is pushed through the same sweep. distinct_nontrivial = distinct month/year-boundary dates, dates whose ISO year differs, '
         'invalid day-28..32 constructor triples, ISO weeks 1/52/53 per year, (month) keys and multi-week nth_weekday cases (union over shards and flavours)',
    exhaustive='dates, constructor triples, ISO triples and nth_weekday_of_month are enumerated completely in flavour rel; nth_weekday(n) is sampled',
    floors={'any': {'dates_checked': 7304484, 'distinct_nontrivial': 1000000}},
    assumptions=COMMON_ASSUME,
    level_text='Exhaustive runtime monitoring: every one of the 7,304,484 dates, every constructor triple and every ISO triple is executed on the real code (release and debug-assertion builds, plus the jiff-static copy of itime.rs) and compared with an independent odometer calendar; only nth_weekday(n) for |n|>1 is sampled.',
    level_note='Trusted base: the odometer/Hinnant calendar in harness/src/cal.rs (cross-checked against each other over the full range on every run). The anchor 1970-01-01 = day 0 = Thursday is part of the statement.',
    technique='exhaustive execution of the real code against a reference-model monitor (odometer calendar), release + debug-assertion builds',
    design_ref='DESIGN.md section 4, C01',
)

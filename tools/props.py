"""Per-property configuration of the driver: stages (flavour + harness args),
preparation steps, offline checkers, coverage floors, evidence rule text."""
import os, subprocess, shutil, glob, json

ROOT = os.path.dirname(os.path.dirname(os.path.abspath(__file__)))


def S(flavour, *args, **kw):
    d = {'flavour': flavour, 'args': list(args)}
    d.update(kw)
    return d


# ---------------------------------------------------------------------------
# preparation steps

def prep_synth(work, seed, tier):
    """Compile the hand-written and the seeded zic sources, slim and fat."""
    import zicgen
    src_dir = os.path.join(ROOT, 'zonesrc')
    out = os.path.join(work, 'synth')
    shutil.rmtree(out, ignore_errors=True)
    os.makedirs(out)
    gen = os.path.join(out, 'generated.zi')
    with open(gen, 'w') as f:
        f.write(zicgen.generate(seed, 24 if tier == 'quick' else 96))
    srcs = sorted(glob.glob(os.path.join(src_dir, '*.zi'))) + [gen]
    for mode in ('slim', 'fat'):
        d = os.path.join(out, mode)
        os.makedirs(d)
        p = subprocess.run(['/usr/sbin/zic', '-b', mode, '-d', d] + srcs, stdout=subprocess.PIPE, stderr=subprocess.STDOUT, text=True)
        if p.returncode != 0:
            raise RuntimeError('zic failed: ' + p.stdout[-800:])
    os.remove(gen)


PREPS = {'synth': prep_synth}


def post_c05diff(work, reports, ctx):
    """Offline checker: the per-case result hashes of the release and the
    debug-assertion run must be identical, case by case."""
    import array, re
    rel = {}
    dbg = {}
    for f in glob.glob(os.path.join(work, 's*-*-*.json.c05')):
        m = re.search(r's\d+-(rel|dbg)-(\d+)\.json\.c05$', f)
        if m:
            (rel if m.group(1) == 'rel' else dbg)[int(m.group(2))] = f
    compared = 0
    viols = []
    n_mismatch = 0
    inconclusive = []
    if not rel or set(rel) != set(dbg):
        inconclusive.append('rel/dbg result logs missing or not paired: rel shards %s, dbg shards %s' % (sorted(rel), sorted(dbg)))
    nshards = len(rel)
    for sh in sorted(set(rel) & set(dbg)):
        a = array.array('Q')
        a.frombytes(open(rel[sh], 'rb').read())
        b = array.array('Q')
        b.frombytes(open(dbg[sh], 'rb').read())
        if len(a) != len(b):
            inconclusive.append(f'shard {sh}: {len(a)} release results vs {len(b)} debug results')
            continue
        compared += len(a)
        if a == b:
            continue
        for i in range(len(a)):
            if a[i] != b[i]:
                n_mismatch += 1
                if len(viols) < 40:
                    case = f'case|{nshards}|{sh}|{i}'
                    outs = {}
                    for fl in ('rel', 'dbg'):
                        binp = ctx['bins'].get(fl)
                        p = subprocess.run([binp, 'c05', '--seed', str(ctx['seed']), '--tier', ctx['tier'], '--case', case],
                                           stdout=subprocess.PIPE, stderr=subprocess.STDOUT, text=True, env=ctx['env'])
                        lines = [l for l in p.stdout.splitlines() if l.startswith('op ') or l.startswith('RESULT')]
                        outs[fl] = ' '.join(lines)[:600]
                    api = 'unknown'
                    m = re.search(r'api (\S+)', outs.get('rel', ''))
                    if m:
                        api = m.group(1)
                    viols.append({'class': f'release-and-debug-builds-disagree/{api}', 'case': case, 'expected': 'rel: ' + outs.get('rel', ''),
                                  'got': 'dbg: ' + outs.get('dbg', ''), 'count': 1})
    # dedupe by class
    merged = {}
    for v in viols:
        if v['class'] in merged:
            merged[v['class']]['count'] += 1
        else:
            merged[v['class']] = v
    return {'flavour': 'offline', 'evaluations': compared, 'distinct_nontrivial': 0, 'samples': [], 'counters': {'rel_dbg_results_compared': compared, 'rel_dbg_mismatches': n_mismatch},
            'violations_total': n_mismatch, 'violations': list(merged.values()), 'inconclusive': inconclusive, 'notes': []}


def post_c18diff(work, reports, ctx):
    """Offline checker: the behaviour traces written by the tz-fat build (rel)
    and the build without in-memory fattening (nofat) must be identical, zone
    by zone and section by section."""
    import re
    sections = ['offset-info', 'civil', 'following', 'preceding', 'print']
    tr = {'rel': {}, 'nofat': {}}
    for f in glob.glob(os.path.join(work, 's*-*-*.json.c18')):
        m = re.search(r's\d+-(rel|nofat)-\d+\.json\.c18$', f)
        if not m:
            continue
        for line in open(f):
            p = line.rstrip('\n').split('\t')
            if len(p) == 7:
                tr[m.group(1)][p[0]] = p[1:]
    inconclusive = []
    viols = {}
    compared = 0
    if not tr['rel'] or set(tr['rel']) != set(tr['nofat']):
        inconclusive.append('behaviour traces missing or not paired: %d zones with tz-fat, %d without' % (len(tr['rel']), len(tr['nofat'])))
    for z in sorted(set(tr['rel']) & set(tr['nofat'])):
        compared += 1
        d10 = tr['rel'][z][5] == 'd10'
        for k, (a, b) in enumerate(zip(tr['rel'][z][:5], tr['nofat'][z][:5])):
            if a != b:
                # zones whose footer rule has a transition in the adjacent UTC year: known finding D10 (the rule is evaluated
                # at look-up time without fattening, and materialised by it with fattening)
                cls = f'tz-fat-on-vs-off/differs[{sections[k]}]' + (' [posix-rule-in-adjacent-utc-year]' if d10 else '')
                if cls in viols:
                    viols[cls]['count'] += 1
                else:
                    viols[cls] = {'class': cls, 'case': f'cmp|nofat|{z}', 'expected': f'trace hash {a} (tz-fat)', 'got': f'{b} (no tz-fat)', 'count': 1}
    return {'flavour': 'offline', 'evaluations': compared * 5, 'distinct_nontrivial': 0, 'samples': [], 'counters': {'fat_nofat_zone_traces_compared': compared},
            'violations_total': sum(v['count'] for v in viols.values()), 'violations': list(viols.values()), 'inconclusive': inconclusive, 'notes': []}


def post_c11nostd(work, reports, ctx):
    """Offline checker: the same seeded Span::round / Span::total cases, run against jiff built without its `std`
    feature (own float routines, src/util/libm.rs) and with it, must give identical results line by line."""
    import re
    logs = {'nstd': {}, 'nstd_std': {}}
    for f in glob.glob(os.path.join(work, 's*-nstd*-*.json.c11n')):
        m = re.search(r's\d+-(nstd|nstd_std)-(\d+)\.json\.c11n$', f)
        if m:
            logs[m.group(1)][int(m.group(2))] = f
    inconclusive = []
    if not logs['nstd'] or set(logs['nstd']) != set(logs['nstd_std']):
        inconclusive.append('std/no-std result logs missing or not paired: %s vs %s' % (sorted(logs['nstd']), sorted(logs['nstd_std'])))
    nsh = len(logs['nstd'])
    compared = 0
    mism = 0
    viols = {}
    import array
    sub = next((x for x in ('c12', 'c20') if any(r.get('property') == x for r in reports)), 'c11')
    for sh in sorted(set(logs['nstd']) & set(logs['nstd_std'])):
        a = array.array('Q')
        a.frombytes(open(logs['nstd'][sh], 'rb').read())
        b = array.array('Q')
        b.frombytes(open(logs['nstd_std'][sh], 'rb').read())
        if len(a) != len(b):
            inconclusive.append(f'shard {sh}: {len(a)} no-std results vs {len(b)} std results')
            continue
        compared += 2 * len(a)
        if a == b:
            continue
        for i in range(len(a)):
            if a[i] == b[i]:
                continue
            mism += 1
            if mism > 60:
                continue
            case = f'nstd|{nsh}|{sh}|{i}'
            outs = {}
            for fl in ('nstd', 'nstd_std'):
                q = subprocess.run([ctx['bins'][fl], sub, '--seed', str(ctx['seed']), '--tier', ctx['tier'], '--case', case], stdout=subprocess.PIPE, stderr=subprocess.STDOUT, text=True, env=ctx['env'])
                outs[fl] = q.stdout.strip()
            x, y = outs['nstd'], outs['nstd_std']
            fx, fy = x.split('\t'), y.split('\t')
            if sub == 'c20':
                cls = 'std-and-no-std-builds-disagree/TimeZone-handle-program'
            elif len(fx) == 8:  # the SignedDuration float conversions (C12)
                names = ['index', 'input', 'try_from_secs_f64', 'try_from_secs_f32', 'as_secs_f64', 'as_secs_f32', 'mul_f64', 'div_f64']
                which = next((names[k] for k in range(8) if fx[k:k + 1] != fy[k:k + 1]), '?')
                cls = f'std-and-no-std-builds-disagree/SignedDuration::{which}'
            else:
                which = 'Span::round' if fx[8:9] != fy[8:9] else 'Span::total' if fx[9:10] != fy[9:10] else 'inputs'
                cls = f'std-and-no-std-builds-disagree/{which}[{fx[7] if len(fx) > 7 else "?"}]'
            if cls in viols:
                viols[cls]['count'] += 1
            else:
                viols[cls] = {'class': cls, 'case': case, 'expected': 'with std: ' + y[:300], 'got': 'without std: ' + x[:300], 'count': 1}
    return {'flavour': 'offline', 'evaluations': compared, 'distinct_nontrivial': 0, 'samples': [], 'counters': {'std_nostd_results_compared': compared, 'std_nostd_mismatches': mism},
            'violations_total': mism, 'violations': list(viols.values()), 'inconclusive': inconclusive, 'notes': []}


POSTS = {'c05diff': post_c05diff, 'c18diff': post_c18diff, 'c11nostd': post_c11nostd, 'c12nostd': post_c11nostd, 'c20nostd': post_c11nostd}

COMMON_ASSUME = [
    'reference models in /verif/harness/src/{cal,tzref,arith}.rs are the trusted base; cal is cross-checked odometer vs Hinnant over the full range at start-up',
    'only executions actually produced are judged: held-on-observed, never verified',
]

PROPS = {}

PROPS['C01'] = dict(
    sub='c01',
    quick=[S('rel'), S('dbg')],
    thorough=[S('rel'), S('dbg')],
    rule='exhaustive sweep of all 7,304,484 dates (flavours rel and dbg) against a day-by-day odometer; '
         'all (y,m,d) constructor triples incl. invalid; all ISO (y,w,wd) triples; nth_weekday_of_month for every month x nth in -6..=6 x 7 weekdays; seeded nth_weekday; '
         'the jiff-static copy of itime.rs is pushed through the same sweep. distinct_nontrivial = distinct month/year-boundary dates, dates whose ISO year differs, '
         'invalid day-28..32 constructor triples, ISO weeks 1/52/53 per year, (month) keys and multi-week nth_weekday cases (union over shards and flavours)',
    exhaustive='dates, constructor triples, ISO triples and nth_weekday_of_month are enumerated completely in flavour rel; nth_weekday(n) is sampled',
    floors={'any': {'dates_checked': 7304484, 'distinct_nontrivial': 1000000}},
    assumptions=COMMON_ASSUME,
    level_text='Exhaustive runtime monitoring: every one of the 7,304,484 dates, every constructor triple and every ISO triple is executed on the real code (release and debug-assertion builds, plus the jiff-static copy of itime.rs) and compared with an independent odometer calendar; only nth_weekday(n) for |n|>1 is sampled.',
    level_note='Trusted base: the odometer/Hinnant calendar in harness/src/cal.rs (cross-checked against each other over the full range on every run). The anchor 1970-01-01 = day 0 = Thursday is part of the statement.',
    technique='exhaustive execution of the real code against a reference-model monitor (odometer calendar), release + debug-assertion builds',
    design_ref='DESIGN.md section 4, C01',
)

TZ_ASSUME = COMMON_ASSUME + [
    'the tz reference model (harness/src/tzref.rs: RFC 8536 reader + POSIX TZ rule evaluator) is believed for a zone only when glibc zdump or CPython zoneinfo agree with it on that zone (counters zones_corroborated / zones_uncorroborated); uncorroborated zones give no verdict',
    'zic 2.36, zdump 2.36 and CPython 3.11 zoneinfo are independent of jiff',
]

PROPS['C03'] = dict(
    sub='c03',
    prep=['synth'],
    quick=[S('rel'), S('dbg', 'zone_stride=4')],
    thorough=[S('rel'), S('dbg')],
    rule='zones: every TZif file of /usr/share/zoneinfo (main tree), every bundled jiff-tzdb zone, hand-written + seeded synthetic zones compiled with zic -b slim and -b fat, '
         'fixed and seeded POSIX TZ strings, fixed offsets. Per zone: every explicit transition T and the rule transitions of the probe years (quick: 1900-2100 + 50 seeded years; thorough: all of -9999..9999) '
         'probed at T-2s+1ns, T-1s, T-1/2s, T-1ns, T, T+1ns, T+1s-1ns, T+1s plus range limits and seeded instants, through to_offset_info/to_offset/to_datetime/Zoned::new/strftime. '
         'distinct_nontrivial = distinct (zone, T) pairs where the corroborated model says offset, DST flag or abbreviation really changes at T',
    floors={'any': {'zones_corroborated': 1000, 'model_change_instants_probed': 100000, 'synthetic_zones': 40}},
    assumptions=TZ_ASSUME,
    level_text='Reference-model monitoring at the API boundary: jiff\'s answers (offset, DST flag, abbreviation, civil time, strftime) at instants bracketing every transition of ~1300 zone files and hundreds of generated POSIX rules are compared with an independent RFC 8536/POSIX evaluator that is itself cross-checked against zdump and CPython zoneinfo on every run. Interior instants of constant segments are only sampled.',
    level_note='Trusted base: harness/src/tzref.rs + cal.rs, corroborated per zone by zdump/zoneinfo; zic for the synthetic zones. jiff upper-cases %Z by design, compared case-insensitively. Known finding D10 (POSIX rule transitions that fall into the adjacent UTC year) is listed in known_findings.json.',
    technique='reference-model monitor over boundary-biased probe instants; release + debug-assertion builds; model corroborated by zdump and CPython zoneinfo',
    design_ref='DESIGN.md section 4, C03',
)

PROPS['C04'] = dict(
    sub='c04',
    prep=['synth'],
    quick=[S('rel'), S('dbg', 'zone_stride=4')],
    thorough=[S('rel'), S('dbg')],
    rule='same zone corpus as C03. Per zone, for every offset change T (explicit and rule transitions of the probe years) the wall-clock window [T+min(o1,o2), T+max(o1,o2)) is probed at '
         'start-1s, start-1ns, start, start+1ns, start+1s, start+1/2s, middle, end-1/2s, end-1s, end-1ns, end, end+1ns, end+1s; plus DateTime::MIN/MAX +-26h and seeded civil datetimes; '
         'each through to_ambiguous_timestamp/to_ambiguous_zoned x 4 strategies (named methods and disambiguate), to_timestamp, to_zoned, DateTime::to_zoned. '
         'Two oracles: the statement\'s own counting rule evaluated with jiff\'s forward map, and the corroborated reference model. '
         'distinct_nontrivial = distinct (zone, T) with a real offset change whose gap/fold window was probed',
    floors={'any': {'zones': 1000, 'gaps': 100000, 'folds': 100000, 'offset_changes_probed': 100000}},
    assumptions=TZ_ASSUME + ['civil times shown by three or more instants (back-to-back folds) are outside the stated trichotomy: counted, no verdict',
                             'zones whose POSIX rule is subject to known finding D10 are only judged on their explicit-transition part'],
    level_text='Reference-model and metamorphic monitoring: for ~1700 zones the classification of civil datetimes bracketing every gap/fold window to the nanosecond is compared both with the statement\'s counting rule evaluated through jiff\'s own instant->offset map and with the independent model; every strategy\'s selected instant is compared with the documented one.',
    level_note='Trusted base as C03. Gap offsets = offsets in force just before/after the skipped window of the unique forward jump containing the civil time.',
    technique='reference-model + self-consistency (metamorphic) monitor over boundary-exhaustive civil probes; release + debug-assertion builds',
    design_ref='DESIGN.md section 4, C04',
)

PROPS['C14'] = dict(
    sub='c14',
    prep=['synth'],
    quick=[S('rel'), S('dbg', 'zone_stride=4')],
    thorough=[S('rel'), S('dbg')],
    rule='same zone corpus as C03 (incl. zones that abolished DST, rule-only POSIX zones, fixed offsets). Per zone the model\'s complete list of info-change instants over years -9999..9999 is computed; '
         'following() and preceding() are started on, 1ns/0.5s/1s before and 1ns/1s after a strided+seeded selection of them (always the first and last six), before the first, after the last, at both range limits and at seeded instants, '
         'for a bounded number of steps, and to exhaustion from both range limits and from the middle (quick: every 5th zone; thorough: all). '
         'Monitors: strict monotonicity, strictly after/before the start, whole seconds, yielded info == direct lookup == model, no model change inside the traversed window unyielded, constant info between consecutive yields (direct lookups), termination under a 100000-step cap. '
         'distinct_nontrivial = distinct (zone, T) change instants used as starts',
    floors={'any': {'zones': 1000, 'yields': 1000000, 'zones_traversed_to_exhaustion': 100}},
    assumptions=TZ_ASSUME + ['yields at which nothing changes are counted (yields_where_nothing_changes) but not condemned: the statement forbids omissions, not extras'],
    level_text='Trace monitoring of the real iterators: millions of yielded transitions from thousands of start instants per run are checked online for ordering and against the independent model\'s complete change list for omissions, across the table/rule boundary and both range limits.',
    level_note='Trusted base as C03. Start instants are a strided+seeded subset of all transitions; complete traversals cover every transition of the traversed zones.',
    technique='online trace monitor (ordering, omission, agreement with direct lookup) over iterator executions vs. reference model; release + debug-assertion builds',
    design_ref='DESIGN.md section 4, C14',
)

PROPS['C02'] = dict(
    sub='c02',
    quick=[S('rel'), S('dbg', 'day_stride=8')],
    thorough=[S('rel'), S('dbg')],
    rule='boundary-exhaustive: for every day of the civil range (dbg quick: every 8th + 400 days around the epoch and both limits) and 26 offsets (0, +-1s, +-59s, +-1h, +-5:30, +-12h, +-24h, +-25:59:59, 8 seeded) the instants '
         'local midnight -1ns / 0 / +1ns through Offset::to_datetime and back through Offset::to_timestamp; every second of days MIN+1, -1, 0, MAX-1 x ns {0,1,999999999}; seeded (instant, offset) pairs; '
         'all 187,199 offsets at 4 instants (thorough; strided in quick); civil datetimes within 52 h of DateTime::MIN/MAX at 1 s steps for the Ok/Err boundary; (second, nanosecond) constructor grid and unit constructors at the limits; '
         'all views against one i128 nanosecond count. distinct_nontrivial = distinct day boundaries crossed + distinct seeded instants whose views were checked',
    exhaustive='day boundaries of all 7,304,485 days x 26 offsets in flavour rel; other sub-spaces sampled',
    floors={'any': {'day_boundaries': 7304485}},
    assumptions=COMMON_ASSUME,
    level_text='Reference-model monitoring with boundary-exhaustive inputs: every local-midnight crossing of every day for 26 offsets, every second of four critical days and millions of seeded pairs are converted both ways by the real code and compared with exact i128 nanosecond arithmetic + the odometer-checked calendar.',
    level_note='Trusted base: cal.rs and i128 arithmetic. Timestamp::constant is only compared where Timestamp::new is Ok (its out-of-range behaviour is a panic contract, not part of the statement).',
    technique='reference-model monitor (i128 nanoseconds + calendar) over boundary-exhaustive and seeded inputs; release + debug-assertion builds',
    design_ref='DESIGN.md section 4, C02',
)

PROPS['C08'] = dict(
    sub='c08',
    quick=[S('rel'), S('dbg')],
    thorough=[S('rel'), S('dbg')],
    rule='seeded (civil value, operand) pairs: values biased to range limits, month ends, Feb 28/29, years around 0, midnight/noon/second boundaries; operands = spans with 1-4 non-zero units of one sign '
         '(each unit at 1, limit, limit-1, half limit, log-uniform), signed durations up to +-(i64::MAX s), std Durations up to u64::MAX s, and operands aimed to land within 1 unit of a range limit, a midnight or a clamped month end; '
         'each through checked/saturating add and sub, the + and - operators (only where Ok), Time wrapping add/sub, and the three *Series iterators (first 24 items). '
         'distinct_nontrivial = distinct cases with >= 2 non-zero units, a month/year unit, or a duration of a day or more',
    floors={'quick': {'evaluations': 50000000, 'distinct_nontrivial': 3000000}, 'thorough': {'evaluations': 300000000, 'distinct_nontrivial': 3000000}},
    assumptions=COMMON_ASSUME + ['Time::checked_add of a span with non-zero calendar units is refused by jiff; the statement is silent, so only absence of panics is required there'],
    level_text='Reference-model monitoring of the real arithmetic entry points in both build modes: millions of limit-biased (value, span|duration) pairs per run compared with exact i128 day-number/nanosecond arithmetic (months first with clamping, then days, then 24h carry), including Ok/Err-ness, saturation targets and wrap-around.',
    level_note='Trusted base: arith.rs + cal.rs. Argument tuples are sampled (single units at their limits are enumerated).',
    technique='reference-model monitor over seeded limit-biased inputs; release + debug-assertion builds',
    design_ref='DESIGN.md section 4, C08',
)

PROPS['C12'] = dict(
    sub='c12',
    post=['c12nostd'],
    quick=[S('rel'), S('dbg'), S('nstd'), S('nstd_std')],
    thorough=[S('rel'), S('dbg'), S('nstd'), S('nstd_std')],
    rule='Span: seeded sequences of 1-4 fallible setter calls (unit, value in {+-limit, +-(limit-1), +-(limit+1), 0, +-1, i64::MIN/MAX, seeded}) observed after every step through all getters, signum/is_*, negate, unary minus, abs, '
         'fieldwise equality, conversion to SignedDuration/std Duration, then checked_mul by {0,+-1,+-2,3,10,i64::MIN/MAX, seeded, the multiplier that lands a unit on its limit} against a (sign, magnitudes[10]) model with the documented sign rule; every unit alone at its boundary values x every second unit (enumerated). '
         'SignedDuration: seeded (a, b, k:i32) with a,b biased to MIN/MAX/0/day multiples against i128 nanosecond arithmetic for 30 observers (views, add/sub/mul/div/neg/abs, saturating forms, conversions, float views); unit constructors at their overflow boundaries; '
         'floats: NaN, +-inf, subnormals, +-2^63 and neighbours, half-nanosecond ties, powers of two, seeded bit patterns, compared with the exact rational value of the float. '
         'distinct_nontrivial = distinct multi-setter sequences + distinct (a,b,k) triples (every third) + distinct float bit patterns',
    floors={'quick': {'evaluations': 500000000, 'distinct_nontrivial': 10000000, 'std_nostd_results_compared': 9000000}, 'thorough': {'evaluations': 5000000000, 'distinct_nontrivial': 30000000, 'std_nostd_results_compared': 100000000}},
    assumptions=COMMON_ASSUME + ['try_from_secs_f32 is allowed the precision of an f32 significand (its documentation shows the loss); f64 conversions must be within 1 ns of the exact rational value; mul_f64/div_f64/as_secs_f64 within 1e-14 relative'],
    level_text='Reference-model monitoring: every mutation and observer of Span and SignedDuration is executed on seeded limit-biased inputs in both build modes and compared with a (sign, magnitudes) model resp. exact i128 nanosecond arithmetic, including exactly-when overflow is reported and sign coherence of every produced value.',
    level_note='Trusted base: the 40-line span model and i128 arithmetic in harness/src/c12.rs; exact decomposition of IEEE floats. The documented panics of the infallible constructors count as reported overflow.',
    technique='reference-model monitor (unit-vector span model, i128 nanoseconds, exact float decomposition) over seeded limit-biased inputs; release + debug-assertion builds; offline differential of the float conversions between builds of jiff with and without its std feature',
    design_ref='DESIGN.md section 4, C12',
)

PROPS['C10'] = dict(
    sub='c10',
    prep=['synth'],
    quick=[S('rel'), S('dbg')],
    thorough=[S('rel'), S('dbg')],
    rule='Timestamp/Time/DateTime/SignedDuration/Offset: seeded (value, unit, increment, mode) with values placed on exact multiples, midpoints (ties) and +-1ns around both, at the type limits, near midnight (day carry) and in years <= 0; '
         'increments drawn from all divisors of the next unit (resp. of a civil day for Timestamp) plus {0, -1, non-divisors, the unit size itself, i64::MIN/MAX}; all 9 modes. '
         'Enumerated: every legal increment of every time unit x 9 modes x ties +-1ns for k in -3..=3, for Time, Timestamp, SignedDuration and DateTime on days {epoch, year 0, year -5, MIN, MAX}. '
         'until() with smallest/increment/mode on Time and Timestamp. Zoned: a rotating zone sample (every 23rd zone of the C03 corpus in quick, every 3rd in thorough, all hand-written synthetic zones, fixed POSIX strings) x instants within +-36 h of transitions and seeded instants x units day..ns. '
         'distinct_nontrivial = distinct legal (value, unit, increment, mode) cases for Timestamp, DateTime and Zoned',
    floors={'quick': {'evaluations': 10000000, 'zoned_roundings': 100000, 'zones': 20}, 'thorough': {'evaluations': 300000000, 'zoned_roundings': 5000000, 'zones': 200}},
    assumptions=COMMON_ASSUME + TZ_ASSUME[2:3] + [
        'increment legality follows each type\'s documentation: Time/DateTime/Zoned must divide and be smaller than the next unit (DateTime/Zoned days: 1 only), Timestamp must divide a civil day; SignedDuration/Offset: increments <= 0 must not panic, positive non-divisors may be rounded exactly or rejected',
        'Time::round wraps to 00:00 as documented; Zoned day rounding = start of the civil day or of the next one by the mode applied to elapsed/real day length (model start-of-day = first instant showing that civil date)'],
    level_text='Reference-model monitoring: rounding results of the real code in both build modes are compared with exact integer rounding (floor multiple, remainder doubled against the increment, parity for half-even) on ties, near-ties, limits and negative years; zoned rounding is compared with a composition of the civil model and the corroborated tz model.',
    level_note='Trusted base: arith::round (30 lines), cal.rs, tzref.rs. The value/increment/mode product is sampled except for the enumerated tie table.',
    technique='reference-model monitor over tie/limit-biased seeded inputs + enumerated increment table; release + debug-assertion builds',
    design_ref='DESIGN.md section 4, C10',
)

PROPS['C06'] = dict(
    sub='c06',
    prep=['synth'],
    quick=[S('rel'), S('dbg', 'zone_stride=4')],
    thorough=[S('rel'), S('dbg')],
    rule='same zone corpus as C03. Per zone, seeded zoned datetimes: within +-2 days of transitions (with ns 0/1/.5s/999999999), starts aimed so that a step of 1/7/28/30/31/365 days lands inside a gap or fold, month ends / leap days / years around 0, both range limits; '
         'operands: +-1d, +-24/23/25 h, weeks, months, years, mixed calendar+time spans of one sign, limit-biased spans, signed and unsigned durations; through checked/saturating add and sub and the &Zoned +/- operators, '
         'plus tomorrow, yesterday, first/last_of_month, first/last_of_year, start_of_day, end_of_day and with().{day,hour,minute,month,year}. Oracle = civil model (months first, clamping) -> compatible resolution by the corroborated tz model -> exact ns add. '
         'Every produced Zoned also passes the C13 consistency invariant. distinct_nontrivial = distinct (zone, instant, operand) triples (every second one)',
    floors={'quick': {'zones': 1000, 'evaluations': 10000000, 'zoned_values_checked_for_consistency': 5000000}, 'thorough': {'zones': 1000, 'evaluations': 200000000}},
    assumptions=TZ_ASSUME + ['end_of_day is judged against its documentation (last nanosecond of the civil day; earlier instant in a gap, later in a fold)', 'zones subject to known finding D10 are judged on their explicit-transition part only'],
    level_text='Reference-model monitoring: millions of zoned additions/subtractions and calendar helpers per run, concentrated on DST days of ~1700 zones, are compared with the composition civil-model -> tz-model(compatible) -> exact nanoseconds; results must keep the zone and be internally consistent.',
    level_note='Trusted base: arith.rs, cal.rs, tzref.rs (corroborated). Operand/instant product is sampled.',
    technique='reference-model monitor (composition of civil and tz models) + invariant monitor on every produced value; release + debug-assertion builds',
    design_ref='DESIGN.md section 4, C06',
)

PROPS['C07'] = dict(
    sub='c07',
    prep=['synth'],
    quick=[S('rel'), S('dbg')],
    thorough=[S('rel'), S('dbg')],
    rule='seeded ordered pairs (a, b) for Date, DateTime, Time, Timestamp (biased to month ends, leap days, equal or crossing times of day, +-40/+-800 days apart, range limits) and Zoned in one zone '
         '(a rotating 1/7 sample of the C03 corpus + all hand-written synthetic zones + fixed POSIX strings; instants within +-2.3 days of transitions, same wall-clock time on other days, far apart) x every Unit as largest (and the default). '
         'Laws checked with jiff\'s own checked_add: a + until == b; all non-zero units share the sign of b - a; nothing above largest; sub-unit bounds (|min| < 60 ...); '
         'behavioural balance for day/week/month/year: the span truncated at that unit does not pass b and one more of the unit does; since == -until; duration_until/since == exact ns distance; no panics. '
         'distinct_nontrivial = distinct (a, b, largest) for Date, DateTime and every second zoned pair',
    floors={'quick': {'evaluations': 20000000, 'zones': 100, 'zoned_pairs': 1000000}, 'thorough': {'evaluations': 500000000, 'zones': 500}},
    assumptions=COMMON_ASSUME + TZ_ASSUME[2:3] + [
        'a difference that exceeds a Span unit limit (e.g. > 292 years in nanoseconds) is a documented error, tolerated',
        'balance of months/years is not judged when a\'s day of month is 29-31 (Temporal counts a clamped month as not completed), nor when the landing wall-clock time is inside a gap or fold (whole days are counted on the wall clock)',
        'largest units a type does not permit must not panic; whether they are refused is not part of the statement'],
    level_text='Metamorphic monitoring of the real difference routines in both build modes: reversibility through the (independently monitored) addition, sign/unit-bound/balance laws and exact absolute distances on millions of boundary-biased pairs per run, including pairs straddling DST transitions in hundreds of zones.',
    level_note='Trusted base: jiff\'s checked_add (policed by C06/C08), i128 distances, the tz/civil models only to decide where the balance law is not judged.',
    technique='metamorphic-law monitor (a + until == b, sign, balance, since = -until, exact distance) over seeded pairs; release + debug-assertion builds',
    design_ref='DESIGN.md section 4, C07',
)

PROPS['C13'] = dict(
    sub='c13',
    prep=['synth'],
    quick=[S('rel'), S('dbg', 'zone_stride=3')],
    thorough=[S('rel'), S('dbg')],
    rule='seeded operation sequences of length 1..8 from a start instant (within +-28 h of a transition of the start zone, at the range limits, or uniform) over 22 operations: checked/saturating add/sub of spans, round, with().{day,hour,minute,month,year,subsec,day_of_year}, '
         'with().offset().offset_conflict().disambiguation(), start/end_of_day, tomorrow/yesterday, first/last_of_month/year, nth_weekday, nth_weekday_of_month, with_time_zone (hopping between three zones), DateTime::to_zoned, Zoned::new, print->parse, strftime->strptime. '
         'After every step the produced Zoned must satisfy offset()==time_zone().to_offset(timestamp()), datetime()==offset().to_datetime(timestamp()) and agree with the corroborated zone model; with_time_zone must keep the instant; '
         'at the end ==, cmp and Hash are compared for the same instant in another zone and for an instant 1 ns later. All Zoned values produced by the C06 check are also monitored. '
         'distinct_nontrivial = distinct (operation trace, start instant, start zone)',
    floors={'quick': {'sequences': 300000, 'zones': 1000, 'zoned_values_checked_for_consistency': 1000000}, 'thorough': {'sequences': 5000000}},
    assumptions=TZ_ASSUME,
    level_text='Invariant monitoring over operation histories: hundreds of thousands of seeded sequences of public operations per run, in ~1700 zones and biased to transitions, with the consistency invariant asserted on every intermediate value (by jiff\'s own accessors and by the independent zone model) and equality/ordering/hash checked against instants.',
    level_note='Trusted base: the invariant itself is stated in terms of jiff\'s public accessors; tzref.rs corroborates the offset. Sequences are sampled (22^8 orders are not enumerated).',
    technique='invariant monitor at every step of seeded operation sequences (histories); release + debug-assertion builds',
    design_ref='DESIGN.md section 4, C13',
)

PROPS['C05'] = dict(
    sub='c05',
    post=['c05diff'],
    quick=[S('rel'), S('dbg')],
    thorough=[S('rel'), S('dbg')],
    rule='an operation table of 81 entries (~120 distinct public fallible APIs of civil::{Date,Time,DateTime,ISOWeekDate,Weekday}, Timestamp, Zoned, Span, SignedDuration, tz::{Offset,TimeZone,AmbiguousTimestamp,AmbiguousZoned,OffsetConflict} '
         'and the *With/*Round/*Difference/*Series helpers) executed on seeded limit-biased argument tuples (type MIN/MAX and +-1, zero, sign changes, every Unit, all 9 modes, increments {0,-1,i64::MIN/MAX,divisors,non-divisors}, 18 time zones incl. date-line, sub-minute, POSIX and extreme fixed offsets, instants next to transitions). '
         'Each case is a pure function of (seed, shard, index) so the release and the debug-assertion build execute the same list; monitors: panic hook (file:line), range predicates on every Ok value (raw getters + re-validation through the checked constructors + Zoned consistency), '
         'and an offline case-by-case diff of the two builds\' canonical results. distinct_nontrivial = distinct (result, index) of every 7th case',
    floors={'quick': {'cases': 60000000, 'rel_dbg_results_compared': 30000000, 'ok_results': 10000000, 'err_results': 10000000}, 'thorough': {'cases': 1500000000, 'rel_dbg_results_compared': 750000000}},
    assumptions=COMMON_ASSUME + ['argument tuples are sampled; the 2^63 input of known finding D9 (C12) is kept out of this table because it is neither a panic, a range nor a build-mode issue'],
    level_text='Differential and invariant monitoring of every public fallible operation: the same seeded, limit-biased call list runs in a release build and in a debug-assertion build (which arms jiff\'s ranged-integer bound tracking as a domain sanitizer); panics are events with file:line, every Ok value is range-checked, and the two result logs are diffed offline.',
    level_note='Trusted base: the range predicates (documented limits) and the panic hook. Error *texts* are not compared, only Ok-value/Err-ness.',
    technique='differential execution release vs debug-assertion build + panic/range monitors over a seeded operation table; offline log diff',
    design_ref='DESIGN.md section 4, C05',
)

PROPS['C09'] = dict(
    sub='c09',
    quick=[S('rel'), S('dbg', 'zone_stride=6'), S('miri', 'n=60', shards=16, timeout=1500)],
    thorough=[S('rel'), S('dbg'), S('miri', 'n=1500', shards=16, timeout=14000)],
    rule='Date: all 7,304,484 dates (Display -> FromStr, and an independent reader). Time: every second of the day x 12 nanosecond patterns, Display, {:.0/.3/.6/.9}. DateTime/Timestamp: seeded values incl. limits and every fraction length 0..9, '
         'Display, {:.N}, DateTimePrinter options precision x separator {T,t,space} x lowercase, Timestamp::display_with_offset with whole-minute and sub-minute offsets. '
         'Zoned: every named zone of the system database (quick: every 2nd) x the C03 probe instants (T-1ns, T, ... of every transition), both passes through every fold to the second (first 12 and last 40 folds per zone), sub-minute LMT periods, '
         'and all 3,119 whole-minute fixed offsets; printed with Display and with reduced precision. Oracles: parse(print(x)) == x (instant, civil fields, offset, zone name and TimeZone equality); with precision N the value truncated to N digits; '
         'a 120-line strict RFC 3339/9557 reader (expanded years) that recomputes the instant with the reference calendar; printed civil time == zone model. distinct_nontrivial = distinct seeded (datetime, timestamp) pairs (every 4th) + distinct (zone, instant) probes (every 8th)',
    exhaustive='all dates and all seconds of a day; other value spaces are sampled',
    floors={'quick': {'dates': 7000000, 'named_zones': 250, 'zoned_probes': 300000, 'zoned_probes_inside_folds': 20000, 'zoned_probes_sub_minute_offset': 5000, 'fixed_offset_zones': 3119},
            'thorough': {'dates': 7000000, 'named_zones': 500, 'zoned_probes': 5000000}},
    assumptions=COMMON_ASSUME + ['RFC 3339 cannot carry offset seconds: for sub-minute offsets the independent reader compares the civil time and the offset to within 30 s, the instant only through jiff\'s own parser',
                                 'the reader accepts the RFC 9557 / ISO 8601 expanded year form (+-YYYYYY) that jiff prints outside 0..=9999'],
    level_text='Round-trip and independent-reader monitoring of the real printers and parsers: exhaustive over dates and seconds of the day, boundary-biased over instants around every transition of every named zone (including both passes of folds and sub-minute LMT offsets) and over printer options.',
    level_note='Trusted base: the strict reader in harness/src/c09.rs + cal.rs; tzref.rs for the civil time a zone prescribes. serde impls delegate to Display/FromStr and are not exercised separately (serde is not a dependency of the harness).',
    technique='round-trip (print->parse) monitor + independent RFC 3339/9557 reader over exhaustive and boundary-biased values; release + debug-assertion builds; Miri on a strided subset (the printers build strings with from_utf8_unchecked)',
    design_ref='DESIGN.md section 4, C09',
)

PROPS['C11'] = dict(
    sub='c11',
    prep=['synth'],
    post=['c11nostd'],
    quick=[S('rel'), S('dbg'), S('nstd'), S('nstd_std')],
    thorough=[S('rel'), S('dbg'), S('nstd'), S('nstd_std')],
    rule='seeded (reference, span, smallest, largest|default, increment, mode) cases: references = civil date / civil datetime (biased to limits of months, leap days, midnight), zoned datetimes within +-2 days of transitions in a rotating 1/13 sample of the C03 corpus (+ all hand-written synthetic zones), '
         'the days-are-24-hours marker, and no reference; spans with 1-4 units of one sign from tiny to thousands of days (and limit-biased ones); increments from the divisors of the next unit plus {0,-1,the unit size, non-divisors}; all 9 modes; sometimes units the reference does not permit. '
         'Oracle (end-point conservation, jiff\'s own separately-monitored addition as the evaluation function): T = greedy balanced truncation of r..r+span found by binary search with checked_add only, lo = r+T, hi = r+(T + sign*inc*smallest); r + rounded must be the end chosen from the exact integers (x-lo, hi-lo) by the mode (half-even parity on the grid that is rounded); '
         'plus: no unit above largest / below smallest, smallest a multiple of the increment, sign kept. total(unit) = greedy whole units + (x-lo)/(hi-lo) within 1e-12 relative; compare == ordering of r+a, r+b; to_duration == exact distance; r+(a+b) == (r+a)+b for civil/uniform references; calendar units without a reference must be refused. '
         'distinct_nontrivial = distinct rounding cases whose r+span is strictly inside its window. '
         'Stages nstd/nstd_std (harness-nostd): 300,000 (quick) / 4,000,000 (thorough) seeded round+total cases per shard relative to civil dates, civil datetimes and POSIX-zoned datetimes, biased to spans that are exact multiples of the increment, run against jiff built without std (its own floor/ceil/round/trunc in src/util/libm.rs) and with std; the two result logs must be identical line by line',
    floors={'quick': {'rounds_ok': 1500000, 'zones': 60, 'zoned_cases': 400000, 'std_nostd_results_compared': 9000000}, 'thorough': {'rounds_ok': 40000000, 'zones': 300, 'std_nostd_results_compared': 100000000}},
    assumptions=COMMON_ASSUME + TZ_ASSUME[2:3] + [
        'no end-point verdict when the reference day of month is 29-31 and months/years are involved (clamping), when a window end lands in a gap/fold, or when a calendar smallest unit is rounded in increments > 1 with larger units present (Temporal rejects that configuration; jiff\'s result is on no single grid)',
        'with weeks as the largest and days as the smallest unit relative to a civil reference the increment applies to the total number of days',
        'errors are permitted when r+span or the result exceed the datetime range or the span unit limits'],
    level_text='Metamorphic end-point monitoring of Span::round/total/compare/checked_add/to_duration in both build modes: every result is mapped back onto the time line with the (independently monitored) datetime addition and compared with the neighbour selected by exact integer arithmetic from a greedy truncation computed by binary search, independently of jiff\'s nudge/bubble code.',
    level_note='Trusted base: jiff\'s checked_add (policed by C06/C08), arith.rs, the greedy search and pick_endpoint in harness/src/c11.rs; tzref.rs only to decide where no verdict is given.',
    technique='metamorphic end-point conservation monitor with an independent greedy-search oracle; release + debug-assertion builds; offline differential of recorded results between builds of jiff with and without its std feature',
    design_ref='DESIGN.md section 4, C11',
)

PROPS['C15'] = dict(
    sub='c15',
    quick=[S('rel'), S('dbg'), S('miri', 'scale_pct=1', 'cfg_stride=12', shards=16, timeout=1500)],
    thorough=[S('rel'), S('dbg'), S('miri', 'scale_pct=1', 'cfg_stride=2', shards=16, timeout=14000)],
    rule='friendly format: the whole configuration lattice designator(4) x spacing(3) x direction(4) x fractional(6) x comma(2) x HH:MM:SS(2) = 1152 configurations, each with seeded padding {default,0,2,7}, precision {None,0,1,3,6,9} and zero_unit; '
         'values: zero, each unit at its limit, all units at their limits, sub-second mixes up to the limits, human-sized mixes, carry stressers (x.999999999, 1000 ms, 999999 us), limit-biased spans, and SignedDurations incl. MIN/MAX; for Span and for SignedDuration. '
         'ISO 8601: seeded spans/durations, upper and lower case designators, Display {} and {:#} with FromStr. Oracle: real printer -> real parser; lossless configurations must give the span back unit for unit (with a fractional unit or HH:MM:SS: units above it unit for unit, the rest as one exact total; durations identical); '
         'lossy ones (fractional hours/minutes, reduced precision) must parse and differ by less than one unit of the last printed digit; ISO must keep years..minutes and the total of seconds and smaller; no printer panics. '
         'distinct_nontrivial = distinct (configuration, span) pairs (every 16th) + distinct ISO spans (every 8th)',
    floors={'quick': {'configurations': 1152, 'evaluations': 30000000}, 'thorough': {'configurations': 1152, 'evaluations': 800000000}},
    assumptions=COMMON_ASSUME + ['"lossless" = no fractional unit, or fractional seconds/milliseconds/microseconds with precision None or at least 9/6/3 digits; HH:MM:SS keeps hours and minutes as written and seconds+fraction as one total'],
    level_text='Round-trip monitoring of the real duration printers and parsers over the complete friendly configuration lattice and limit-biased values, in both build modes: lossless configurations must reproduce the value exactly, lossy ones within one unit of the last printed digit, and every output must be accepted by the parser.',
    level_note='Trusted base: the comparison rules in harness/src/c15.rs (unit-for-unit above the fractional unit, exact i128 totals below). Values are sampled per configuration; the configuration lattice itself is enumerated.',
    technique='round-trip (print->parse) monitor over an enumerated configuration lattice x seeded limit-biased values; release + debug-assertion builds; Miri on a strided subset (the printers build strings with from_utf8_unchecked)',
    design_ref='DESIGN.md section 4, C15',
)

PROPS['C16'] = dict(
    sub='c16',
    quick=[S('rel'), S('dbg')],
    thorough=[S('rel'), S('dbg')],
    rule='strftime: every date -9999-01-01..9999-12-31 x 21 date specifiers (%a %A %b %B %h %C %d %e %j %m %u %w %U %W %V %G %g %y %Y %F %D) and every second of a day x 21 time specifiers (%H %I %k %l %M %S %p %P %R %T %f %.f %3f %6f %9f %.3f %.6f %.9f %n %t %%), each against the reference calendar and (for the specifiers glibc defines identically) glibc strftime through FFI; '
         'seeded limit-biased datetimes x 20 numeric specifiers x flags {none,_,-,0} x widths {none,1,2,3,5,8,12} against the documented padding rule and glibc, ^ and # against glibc; '
         'seeded zoned values (fixed offsets to the second incl. +-25:59:59, 7 named zones, instants at both limits): %z %:z %s %Q %:Q against the model, Timestamp/Zoned strptime(strftime) through %z, %:z[%Q], %Q and %s; '
         'inverse law over 20 determining formats for DateTime/Date/Time (ISO week dates, day of year, 12-hour clock, month and weekday names, two-digit years inside 1969..2068), contradictory weekday must be rejected; '
         'RFC 2822: seeded instants with years 0..9999 x offsets, plus every day 1900..2100 x 6 (time, offset) pairs: printed text read by an independent reader (weekday consistent, instant to the second, offset to the minute), print->parse for Zoned and Timestamp, contradictory weekday rejected unless relaxed_weekday, obsolete zone names. '
         'distinct_nontrivial = distinct dates (every 64th) + distinct seeded datetimes (every 8th)',
    floors={'quick': {'evaluations': 100000000}, 'thorough': {'evaluations': 1000000000}},
    assumptions=COMMON_ASSUME + ['%y %g %D outside 1969..2068 are documented as unrepresentable: refusal is accepted, any printed text is not',
                                 'year specifiers for negative years, a width without flag on an unpadded specifier (%5u), "-" together with a width, # on mixed-case strings and %^P are not defined consistently by jiff documentation and glibc: counted, no verdict',
                                 'glibc 2.36 strftime in the C locale is the C library reference'],
    level_text='Reference-model and differential monitoring of the real strftime/strptime and RFC 2822 code: all dates and all seconds of a day for every specifier against an independent calendar and glibc strftime, seeded flag/width combinations, print->parse inverse laws over determining formats, and an independent RFC 2822 reader; release and debug-assertion builds.',
    level_note='Trusted base: harness/src/cal.rs (corroborated by C01), glibc strftime, the RFC 2822 reader in harness/src/c16.rs. Formats are a fixed list of determining formats plus single specifiers, not arbitrary format strings.',
    technique='reference-model + differential (glibc strftime via FFI) monitor over all dates/seconds x specifiers, round-trip monitor for strptime and RFC 2822; release + debug-assertion builds',
    design_ref='DESIGN.md section 4, C16',
)

PROPS['C17'] = dict(
    sub='c17',
    prep=['synth'],
    quick=[S('rel'), S('dbg', 'scale_pct=50')],
    thorough=[S('rel'), S('dbg', 'scale_pct=25')],
    rule='text: a corpus of ~1000 strings harvested from jiff\'s own printers (Timestamp/Zoned/civil Display, printer options, RFC 2822 and RFC 9110, 24 strftime formats, ISO and friendly spans/durations over random friendly configurations, offsets, RFC 9557 annotations, POSIX TZ strings) -> every prefix and suffix of every corpus string, then seeded inputs: random bytes, random bytes over the grammar alphabet, and 16 grammar-aware mutations '
         '(truncate, delete, splice interesting tokens, lengthen digit runs, sign/separator swap, slice duplication x50, byte replace, cross-over, 64..5000-long runs, swaps, case flips, boundary numbers, non-UTF-8, padding, windows), each fed to all 26 text targets (FromStr of 7 types, temporal DateTimeParser x7, Pieces, temporal/friendly SpanParser x4, RFC 2822 x3, strptime over 24 formats, strftime with the input as format, TimeZone::posix, the jiff-static copy of the POSIX parser); '
         'strptime/strftime with generated and mutated format strings x (formatted text, mutated formatted text, corpus strings). '
         'TZif: every system, bundled (1/16) and synthetic file unmutated, every truncation length of every 23rd file, structure-aware mutations (14 kinds: header counts, version, extreme/unsorted/duplicate times, type indices, utoff/isdst/desigidx, designation table, indicators, block-boundary truncation, hostile footers, byte flips, v1/v2 disagreement) and generated structurally-consistent hostile files; every accepted zone gets the lookup battery (offset info, civil resolution around each probed instant, both iterators; every 4th accepted zone runs both iterators to exhaustion under a cap above any possible transition count), and is compared with the jiff-static copy of the TZif parser (Ok/Err). '
         'Mutated concatenated tzdata containers through from_concatenated_path + get/available. '
         'Work vs size: thread CPU time of 26 targets x 21 run shapes at n = 2^12..2^19. '
         'Oracles: panic hook; Ok values: range predicates + print->reparse equality; iterators terminate; t(2n)/t(n) <= 3 (reproduced 3 times, t > 5 ms). distinct_nontrivial = distinct inputs (every 8th, and all accepted ones) + distinct TZif byte strings (every 4th)',
    floors={'quick': {'evaluations': 60000000, 'tzif_accepted': 10000, 'cost_pairs': 500}, 'thorough': {'evaluations': 2000000000, 'tzif_accepted': 400000, 'cost_pairs': 500}},
    assumptions=COMMON_ASSUME + ['"sane" for Zoned re-parse: same civil datetime, same zone name and offset, same instant when the offset has no seconds (C09 owns sub-minute offsets); Pieces with a sub-minute offset re-parse equal except for the rounded offset',
                                 'non-termination is judged by a step cap above any possible transition count (explicit transitions <= len/8, rule transitions <= 2 per year), never by wall clock',
                                 'work proportional to size is judged on thread CPU time ratios; a ratio that does not reproduce three times is reported as a note, not a violation'],
    level_text='Hostile-input monitoring of every parser entry point in release and debug-assertion builds: panic hook, range and print->reparse monitors on every accepted value, a lookup battery with iterator-termination monitor on every accepted time zone, agreement of the two copies of the shared TZif/POSIX parsers, and a CPU-time scaling monitor.',
    level_note='"All byte strings" is unbounded: reach is volume plus grammar- and structure-aware mutation; a green run is a statement about the inputs counted in coverage. Memory-safety tooling (Miri/ASan) is applied to the TimeZone representation under C20; the parsers themselves contain no unsafe code.',
    technique='hostile-workload monitoring (panic hook + range/round-trip/termination/CPU-scaling monitors) over grammar-aware text mutation and structure-aware TZif mutation; release + debug-assertion builds',
    design_ref='DESIGN.md section 4, C17',
)

PROPS['C18'] = dict(
    sub='c18',
    prep=['synth'],
    post=['c18diff'],
    quick=[S('rel'), S('dbg'), S('static'), S('nofat', 'trace_only')],
    thorough=[S('rel'), S('dbg'), S('static'), S('nofat', 'trace_only')],
    rule='zones: every system zoneinfo file, every synthetic zone (zonesrc/odd.zi + seeded zicgen, slim and fat), every bundled jiff-tzdb zone. Probes per zone from the reference model: candidate change instants x 8 offsets-in-time + limits + seeded instants, the wall-clock readings on both sides of every candidate, 7 iterator starts x both directions x 60 steps, 6 printed Zoned. '
         'Loaders compared element by element against TimeZone::tzif(name, bytes): TimeZoneDatabase::from_dir on a scratch tree, from_concatenated_path on a container written by harness/src/concat.rs, TimeZoneDatabase::bundled(), jiff::tz::db(); static tz::get! (every 3rd bundled name + 16 awkward ones) and tz::include! (all accepted zonesrc zones, slim and fat) in the "static" build; '
         'tz-fat on vs off as hashed traces diffed offline; the jiff-static copy of the TZif parser compiled into the harness (transition table, civil start/end kinds, footer rule) against the handle; slim vs fat zic output as functions of the instant and by info changes; '
         'names: upper, lower and 4 seeded mixed-case spellings per zone per back-end must resolve to the canonical name and behave the same; POSIX TZ strings (15 fixed, seeded, every footer): time_zone_to_string -> TimeZone::posix must behave identically and compare equal. '
         'distinct_nontrivial = distinct zones + distinct POSIX strings (every 4th)',
    floors={'quick': {'zones': 500, 'static_get_zones': 150, 'static_include_zones': 20, 'fat_nofat_zone_traces_compared': 500, 'evaluations': 2000000},
            'thorough': {'zones': 500, 'static_get_zones': 150, 'static_include_zones': 20, 'fat_nofat_zone_traces_compared': 500, 'evaluations': 5000000}},
    assumptions=COMMON_ASSUME + TZ_ASSUME + ['handles from different loaders are compared on the probe set, not on all instants',
                                             'static handles are not expected to compare == with heap handles (different representation by design); heap handles from all loaders are',
                                             'system zoneinfo and the bundled database are different tzdata releases and are not compared with each other'],
    level_text='Differential monitoring of the real loaders: the same TZif bytes loaded through every back-end (and compiled in by the proc macros) are driven with the same model-derived probes and must answer identically; build configurations (tz-fat on/off) are compared through recorded behaviour traces.',
    level_note='Trusted base: the probe generator (reference model) and the concatenated-container writer in harness/src/concat.rs. The static macros are exercised on a third of the bundled names (compile time).',
    technique='differential runtime monitoring across loaders and build configurations: element-wise comparison of handle behaviour on model-derived probes, offline diff of recorded behaviour traces (tz-fat on/off), proc-macro-built handles in a dedicated build',
    design_ref='DESIGN.md section 4, C18',
)

PROPS['C19'] = dict(
    sub='c19',
    quick=[S('rel'), S('dbg', 'hist_len=4', 'scale_pct=25'), S('tsan', 'part=conc', 'rounds=3', 'conc_ops=600', shards=4),
           S('miri', 'part=conc', 'rounds=1', 'threads=3', 'conc_ops=12', shards=8, miri_seeds='0..4', timeout=1500)],
    thorough=[S('rel'), S('dbg', 'hist_len=5'), S('tsan', 'part=conc', 'rounds=12', 'conc_ops=1500', shards=8),
              S('miri', 'part=conc', 'rounds=1', 'threads=3', 'conc_ops=30', shards=16, miri_seeds='0..8', timeout=14000)],
    rule='scratch zoneinfo tree and concatenated tzdata file owned by the harness; every write stores a fixed-offset zone whose offset identifies (name, version), atomically, with a strictly increasing mtime; virtual monotonic clock (hook H1). '
         'Sequential: all histories of length 5 (quick) / 6 (thorough) over {get a, get A (other case), get b, reset, write a, remove a, write b, advance 200 s, advance 301 s} for both back-ends, plus seeded histories of length 8..40 over 3 names x 4 spellings, available(), advances {1,100,150,299,300,301,450,1000} s; '
         'each lookup judged against the bounded-staleness specification (current disk state, or a state validated at most TTL ago, or for zoneinfo a name missing from a names index read at most TTL ago), canonical name, complete zone, and the path taken (hook H2: fast-hit / revalidate-ok / re-read must match "a changed file is re-read, an unchanged one is reused"). '
         'Concurrent: 4/8/16 worker threads x 2000 lookups+resets on 3 names against one database while a mutator replaces/removes/adds files and advances the clock, delays injected between read unlock and write lock (H2 callback); history recorded at the client boundary (one atomic stamp counter) and checked offline: every observed version must have been current at some moment in [call - TTL, return]; no panic, no torn zone, bounded progress (120 s watchdog + gdb stacks). '
         'ThreadSanitizer and Miri (seeds 0..N) run the concurrent part. distinct_nontrivial = distinct sequential histories (every 16th exhaustive one, all seeded ones) + distinct conflict-order patterns of the concurrent histories',
    floors={'quick': {'sequential_histories': 100000, 'concurrent_gets_checked': 200000, 'path_zoneinfo_fast_hit': 1, 'path_zoneinfo_revalidate_ok': 1, 'path_zoneinfo_reload': 1, 'path_zoneinfo_insert': 1, 'path_zoneinfo_names_refresh': 1, 'path_zoneinfo_reset': 1,
                      'path_concatenated_fast_hit': 1, 'path_concatenated_revalidate_ok': 1, 'path_concatenated_reload': 1, 'path_concatenated_insert': 1, 'path_concatenated_reset': 1},
            'thorough': {'sequential_histories': 1000000, 'concurrent_gets_checked': 2000000, 'path_zoneinfo_revalidate_ok': 1, 'path_zoneinfo_reload': 1, 'path_concatenated_revalidate_ok': 1, 'path_concatenated_reload': 1}},
    assumptions=COMMON_ASSUME + ['files are replaced atomically (rename) and every replacement changes the modification time: revalidation by modification time is the documented mechanism',
                                 'a database from which every zone has been removed is an error state of both back-ends: available() gets no verdict there',
                                 '"never deadlocks" is judged as bounded progress: the workload finishes within 120 s; a firing watchdog is a violation only when gdb shows workers parked inside jiff::tz::db, otherwise inconclusive',
                                 'interleavings are sampled (16 processes x rounds x injected delays, TSan, Miri seeds), not enumerated: the exhaustive small-scope model of the quantifier is model checking and outside this technique family'],
    level_text='History monitoring of the real database code: exhaustive short and seeded long sequential histories against a bounded-staleness specification under a virtual clock, with the cache path of every lookup observed through hooks; recorded concurrent histories checked offline; the concurrent workload repeated under ThreadSanitizer and Miri.',
    level_note='Trusted base: the specification model and the offline history checker in harness/src/c19.rs, hooks H1/H2 in /repo (cfg jiff_verif). TTLs are the built-in 5 minutes, reached through the virtual clock.',
    technique='runtime history monitoring: executable bounded-staleness model over enumerated/seeded sequential histories (virtual clock + path hooks), offline checker over recorded concurrent histories with delay injection, ThreadSanitizer, Miri many-seeds',
    design_ref='DESIGN.md section 4, C19',
)

PROPS['C20'] = dict(
    sub='c20',
    # ways of dying that are what C20 forbids (anything else that kills a shard stays inconclusive)
    crash_classes={'log': [(r'invalid time zone repr tag', 'TimeZone/invalid-repr-tag'), (r'misaligned pointer dereference|unsafe precondition\(s\) violated', 'TimeZone/unsafe-precondition-violated')],
                   'signals': {11: 'SIGSEGV', 7: 'SIGBUS', 4: 'SIGILL'}},
    post=['c20nostd'],
    quick=[S('nstd', 'n=40000'), S('nstd_std', 'n=40000'), S('mon'), S('mondbg', 'scale_pct=50'), S('static', 'scale_pct=25', 'fixed_stride=7'), S('asan', 'scale_pct=25', 'fixed_stride=7'), S('tsan', 'scale_pct=10', 'fixed_stride=97', shards=8),
           S('vg', 'programs=12', 'steps=80', 'fixed_stride=997', shards=16, timeout=1500), S('miri', 'programs=2', 'small', shards=16, miri_seeds='0..2', timeout=1500),
           S('miri32', 'programs=1', 'small', 'fixed_stride=499', shards=16, timeout=1500)],
    thorough=[S('nstd', 'n=1000000'), S('nstd_std', 'n=1000000'), S('mon'), S('mondbg'), S('static', 'scale_pct=25'), S('asan', 'scale_pct=25'), S('tsan', 'scale_pct=10', 'fixed_stride=7'),
              S('vg', 'programs=150', 'steps=120', 'fixed_stride=97', shards=16, timeout=14000), S('miri', 'programs=12', 'small', shards=16, miri_seeds='0..8', timeout=14000),
              S('miri32', 'programs=6', 'small', 'fixed_stride=13', shards=16, timeout=14000)],
    rule='all 187,199 fixed offsets: TimeZone::fixed -> to_fixed_offset / to_offset at 4 instants / clone == original / != neighbour / tag and no reference count (hook H3); '
         'seeded programs of up to 200 steps (60 under Miri) over a pool of 12 slots and the kinds UTC, unknown, fixed(o), POSIX, TZif from bytes, database lookup, static tz::get! ("static" build): new, clone into {plain, Box, Vec of 1..3, Zoned}, drop, ==, derived Zoned arithmetic, sharing with 2..4 scoped threads that clone+query+drop plus one that takes a clone by value and returns it; '
         'after every step: every live handle answers exactly as when its zone was created (4 offsets, name, abbreviation, tag), Arc strong count (H3) == model count for every heap zone, allocator monitor (feature allocmon: footprint of every heap zone; premature free, double free, not freed after last drop), equality reflexive/symmetric/clone-stable and equal exactly for the same value. '
         'The same workload without the allocator monitor under AddressSanitizer+LeakSanitizer, ThreadSanitizer, valgrind memcheck (leak-check=full), Miri, and Miri for a 32-bit target (i686: the tagged pointer packs the fixed offset into pointer bits). distinct_nontrivial = distinct programs. Stages nstd/nstd_std (harness-nostd): seeded programs over the handle kinds that exist without std (UTC, fixed, POSIX, TZif from bytes) — create, clone, drop, query through clones, compare, Debug — against jiff built without and with its std feature; the recorded per-program results must be identical. The allocator monitor never over-aligns: blocks with an alignment request <= 8 sit at addresses that are 8 modulo 16',
    floors={'quick': {'std_nostd_results_compared': 1200000, 'fixed_offsets': 187199, 'programs': 5000, 'heap_zones_created': 50000, 'footprint_blocks_tracked': 100000},
            'thorough': {'std_nostd_results_compared': 30000000, 'fixed_offsets': 187199, 'programs': 400000, 'heap_zones_created': 4000000, 'footprint_blocks_tracked': 1000000}},
    assumptions=COMMON_ASSUME + ['"answers correctly" for a live handle = answers exactly as recorded when its zone was created (C03/C04 own the correctness of the answers themselves)',
                                 'the allocator monitor remembers addresses as integers and is compiled out of the ASan/valgrind/Miri runs so that it cannot hide leaks from them; it is self-tested at start-up (a duplicated handle dropped, a handle leaked)',
                                 'red-zone tools miss non-adjacent overflows and reuse of freed memory that lands in live memory; the allocator monitor and Miri cover those for this small unsafe surface'],
    level_text='Program-model monitoring of the real TimeZone representation: seeded handle programs checked after every step against recorded answers, the Arc strong count (hook) and an allocator monitor that knows each zone\'s heap footprint; all fixed offsets exhaustively; the same programs under ASan/LSan, TSan, valgrind and Miri.',
    level_note='Trusted base: the program model and the allocator monitor in harness/src/{c20,allocmon}.rs, hook H3 in /repo (cfg jiff_verif). Programs are sampled, the fixed-offset space is enumerated.',
    technique='runtime monitoring of seeded handle programs: answer/refcount/allocator-footprint monitors after every step (hooks + counting global allocator), exhaustive fixed offsets, AddressSanitizer+LeakSanitizer, ThreadSanitizer, valgrind memcheck, Miri (64-bit and i686 targets); a never-over-aligning allocator; offline differential of handle programs between builds of jiff with and without its std feature',
    design_ref='DESIGN.md section 4, C20',
)

#!/bin/bash
# usage: seeded_eval.sh <patch.diff> <tier> <PROP> [PROP...]
# Applies a seeded change to /repo, runs the given checks, and undoes it.
set -u
P=$1; TIER=$2; shift 2
cd /verif
git -C /repo diff --quiet || { echo "/repo has local modifications; refusing"; exit 2; }
git -C /repo apply "$P" || { echo "patch does not apply"; exit 2; }
for prop in "$@"; do
  out=$(./check "$prop" --tier "$TIER" 2>&1); rc=$?
  echo "== $prop exit=$rc"
  echo "$out" | grep -E "^VIOLATION|INCONCLUSIVE|^\[C" | head -4 | cut -c1-400
done
git -C /repo checkout -- .
# evidence written while the seeded change was applied is not evidence about the unchanged tree
git -C /verif checkout -- evidence/ 2>/dev/null

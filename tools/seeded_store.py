#!/usr/bin/env python3
"""usage: seeded_store.py <PROP> <variant> <scratch worktree> <needs text> <caught-by text> <eval summary>
Runs tools/seeded_confirm.sh in the scratch worktree and stores the seeded change under /verif/seeded/."""
import sys, os, subprocess, json, shutil
prop, var, wt, needs, caught, evalsum = sys.argv[1:7]
v = f'{wt}/out/{var}'
out = subprocess.run(['/verif/tools/seeded_confirm.sh', wt, v], stdout=subprocess.PIPE, stderr=subprocess.STDOUT, text=True).stdout
res = [l for l in out.splitlines() if l.startswith('RESULT')]
res = res[-1] if res else 'RESULT none: ' + out[-300:]
d = f'/verif/seeded/{prop}-{var}'
os.makedirs(d, exist_ok=True)
for f in ('patch.diff', 'demo.rs', 'notes.md'):
    if os.path.exists(f'{v}/{f}'):
        shutil.copy(f'{v}/{f}', f'{d}/{f}')
ok = 'demo_without_patch_exit=0' in res and 'demo_with_patch_exit=0' not in res and '642 passed' in res
meta = {'property': prop, 'variant': var, 'breaks': prop, 'needs_to_manifest': needs, 'confirmed': ok, 'confirmation': res,
        'confirmed_how': 'tools/seeded_confirm.sh in a scratch git worktree of /repo: patch applied, cargo nextest run --workspace (642 tests), demo program run with and without the patch',
        'checks_run': evalsum, 'caught_by': caught}
json.dump(meta, open(f'{d}/meta.json', 'w'), indent=1)
print(prop, var, 'confirmed' if ok else 'NOT CONFIRMED', res)

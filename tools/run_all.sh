#!/bin/bash
# usage: tools/run_all.sh [quick|thorough] [IDs...]   -- runs the registered checks and prints one summary line each
cd "$(dirname "$0")/.."
TIER=${1:-quick}; shift
IDS=${@:-$(python3 -c "import json;print(' '.join(c['property_id'] for c in json.load(open('MANIFEST.json'))['checks']))")}
for id in $IDS; do
  out=$(timeout 7200 ./check $id --tier $TIER 2>&1); rc=$?
  echo "$id exit=$rc $(echo "$out" | grep -E '^\[C[0-9]+' | tail -1)"
  echo "$out" | grep -E "^VIOLATION|^INCONCLUSIVE" | head -3 | cut -c1-300
done

#!/usr/bin/env python3
"""Regenerate the generated tables of DESIGN.md section 9 (between the
BEGIN/END GENERATED markers) from known_findings.json, seeded/*/meta.json and
evidence/*.json."""
import json, glob, os, re
ROOT = os.path.dirname(os.path.dirname(os.path.abspath(__file__)))
kf = json.load(open(os.path.join(ROOT, 'known_findings.json')))
out = []
out.append('#### Defects repaired by `fix:` commits in /repo (from known_findings.json "fixed")\n')
out.append('| defect | property | commit | what failed |')
out.append('|---|---|---|---|')
for line in kf['fixed']:
    m = re.match(r'fixed: property=(\S+) (\S+) (D\d+\w?) (.*)', line)
    if m:
        out.append('| %s | %s | `%s` | %s |' % (m.group(3), m.group(1), m.group(2), m.group(4).replace('|', '\\|')))
out.append('')
out.append('#### Known findings (genuine, not repaired; the checks print KNOWN-FINDING and exit 0)\n')
out.append('| property | keyed on | what |')
out.append('|---|---|---|')
for k in kf['findings']:
    key = k.get('class') or ('class contains ' + k.get('class_contains', ''))
    if k.get('case'):
        key += ' + case ' + k['case']
    out.append('| %s | `%s` | %s |' % (k['property'], key.replace('|', '\\|'), k['what'].replace('|', '\\|')))
out.append('')
out.append('#### Seeded changes (independent sub-agents; each compiles, passes the 642 tests, demo fails with it and passes without)\n')
out.append('| id | needs, to manifest | caught by | confirmed |')
out.append('|---|---|---|---|')
for d in sorted(glob.glob(os.path.join(ROOT, 'seeded', '*', 'meta.json'))):
    m = json.load(open(d))
    out.append('| %s-%s | %s | %s | %s |' % (m['property'], m['variant'], m['needs_to_manifest'].replace('|', '\\|'), m['caught_by'].replace('|', '\\|'), 'yes' if m.get('confirmed') else 'NO'))
out.append('')
out.append('#### Last committed evidence (quick tier, unchanged tree)\n')
out.append('| id | verdict | evaluations | distinct non-trivial | flavours | wall s |')
out.append('|---|---|---|---|---|---|')
for f in sorted(glob.glob(os.path.join(ROOT, 'evidence', 'C*.json'))):
    e = json.load(open(f))
    c = e['coverage']
    out.append('| %s | %s | %s | %s | %s | %s |' % (e.get('property_id', os.path.basename(f)[:3]), e.get('verdict'), c.get('evaluations'), c.get('distinct_nontrivial'), ' '.join(c.get('flavours', [])), e.get('wall_seconds', e.get('wall_s', ''))))
text = '\n'.join(out) + '\n'
p = os.path.join(ROOT, 'DESIGN.md')
s = open(p).read()
a = s.index('<!-- BEGIN GENERATED -->') + len('<!-- BEGIN GENERATED -->\n')
b = s.index('<!-- END GENERATED -->')
open(p, 'w').write(s[:a] + text + s[b:])
print('DESIGN.md tables regenerated: %d fixed, %d findings' % (len(kf['fixed']), len(kf['findings'])))

#!/bin/bash
# usage: seeded_confirm.sh <scratch worktree> <variant dir (contains patch.diff, demo.rs)>
# Confirms in the scratch worktree (never in /repo): the patch applies, the full
# test-suite passes with it, the demo fails with it and passes without it.
set -u
WT=$1; V=$2
export CARGO_NET_OFFLINE=true
cd "$WT" || exit 2
git checkout -q -- . 
DC=$WT/out/demo_confirm
rm -rf "$DC"; mkdir -p "$DC/src"
JIFF_DEP='{ path = "../..", features = ["static", "tzdb-bundle-always"] }'
[ -n "${DEMO_JIFF_DEP:-}" ] && JIFF_DEP=$DEMO_JIFF_DEP
cat > "$DC/Cargo.toml" <<EOT
[package]
name = "demo_confirm"
version = "0.0.0"
edition = "2021"
[workspace]
[dependencies]
jiff = $JIFF_DEP
EOT
cp "$WT/Cargo.lock" "$DC/" 2>/dev/null
cp "$V/demo.rs" "$DC/src/main.rs"
# DEMO_JIFF_DEP: the dependency table for jiff in the demo crate (e.g. a build without the std feature)
# DEMO_RUSTFLAGS: flags for building the demo only (e.g. --cfg jiff_verif when the demo needs the virtual clock)
# DEMO_RUN: full command for running the demo (default: cargo run --offline --release -q), e.g. a Miri run for a 32-bit target
run_demo() { (cd "$DC" && RUSTFLAGS="${DEMO_RUSTFLAGS:-}" ${DEMO_RUN:-cargo run --offline --release -q} >"$DC/out.$1" 2>&1; echo $?); }
base=$(run_demo base)
git apply "$V/patch.diff" || { echo "RESULT apply-failed"; exit 2; }
withp=$(run_demo patched)
tests=$(cargo nextest run --workspace --no-fail-fast --test-threads 16 --offline 2>&1 | grep -E "^\s+Summary" | tail -1)
git checkout -q -- .
rm -rf "$DC/target"
echo "RESULT demo_without_patch_exit=$base demo_with_patch_exit=$withp tests: $tests"

#!/usr/bin/env python3
"""Regenerates /verif/MANIFEST.json from tools/props.py."""
import json, os, sys
sys.path.insert(0, os.path.dirname(os.path.abspath(__file__)))
import props

ROOT = props.ROOT
ALL = ['C%02d' % i for i in range(1, 21)]
NA_REASON = getattr(props, 'NOT_APPLICABLE', {})

def main():
    checks = []
    for pid in ALL:
        if pid not in props.PROPS:
            continue
        c = props.PROPS[pid]
        checks.append({
            'property_id': pid,
            'quick_cmd': f'./check {pid} --tier quick',
            'thorough_cmd': f'./check {pid} --tier thorough',
            'evidence_file': f'/verif/evidence/{pid}.json',
            'replay_cmd_template': f'./check {pid} --replay {{path}}',
            'engine': 'jv',
            'level_claimed': {'category': 'exploration', 'text': c['level_text'], 'design_ref': c.get('design_ref', 'DESIGN.md section 4')},
            'level_note': c['level_note'],
            'technique': c['technique'],
        })
    na = []
    for pid in ALL:
        if pid not in props.PROPS:
            na.append({'property_id': pid, 'reason': NA_REASON.get(pid, 'check not built yet in this framework (work in progress); runtime monitoring applies, see DESIGN.md section 4')})
    hooks = json.load(open(os.path.join(ROOT, 'tools', 'hooks.json')))
    m = {
        'version': 1,
        'setup_cmd': './check --setup',
        'hooks': hooks,
        'engines': [{'name': 'jv', 'path': '/verif/harness', 'serves_properties': [c['property_id'] for c in checks],
                     'kind_free_text': 'Rust harness (reference models, invariant monitors, seeded workload generators) driven by the python3 script /verif/check; builds flavours rel/dbg/mon/mondbg/nofat/static/asan/tsan/miri/miri32/valgrind of the real jiff from /repo'},
                    {'name': 'jvn', 'path': '/verif/harness-nostd', 'serves_properties': ['C11', 'C12', 'C20'],
                     'kind_free_text': 'the same seeded program built against jiff without and with its std feature (flavours nstd/nstd_std); the recorded per-case results are compared offline by the driver'}],
        'checks': checks,
        'not_applicable': na,
        'notes': 'Technique family: runtime monitoring and sanitizers. Exit 0 held-on-observed, 1 VIOLATION, 2 inconclusive. Known findings: /verif/known_findings.json.',
    }
    json.dump(m, open(os.path.join(ROOT, 'MANIFEST.json'), 'w'), indent=1)
    print('MANIFEST.json:', len(checks), 'checks,', len(na), 'not_applicable')

main()

#!/usr/bin/env python3
"""Second opinion for the reference tz model: CPython's zoneinfo.

usage: pyzi.py <request-file> <output-file>

request:  lines  "Z <kind> <arg>"   kind = file (arg = path to a TZif file)
                                    kind = posix (arg = POSIX TZ string; wrapped into a
                                           minimal TZif v3 file with no transitions)
          followed by one or more lines "T <unix seconds> ..." (years 1..9999 only)
output:   for every Z line "Z", then per instant "<utoff> <isdst 0|1> <abbr>" or "ERR".
"""
import sys, io, struct
from datetime import datetime, timezone, timedelta
import zoneinfo

EPOCH = datetime(1970, 1, 1, tzinfo=timezone.utc)


def wrap_posix(s):
    def block(v):
        hdr = b'TZif' + v + b'\0' * 15 + struct.pack('>6l', 0, 0, 0, 0, 1, 4)
        return hdr + struct.pack('>lbb', 0, 0, 0) + b'UTC\0'
    return block(b'3') + block(b'3') + b'\n' + s.encode() + b'\n'


def load(kind, arg):
    if kind == 'file':
        with open(arg, 'rb') as f:
            return zoneinfo.ZoneInfo.from_file(f, key=None)
    return zoneinfo.ZoneInfo.from_file(io.BytesIO(wrap_posix(arg)), key=None)


def main():
    req, outp = sys.argv[1], sys.argv[2]
    out = []
    zi = None
    for line in open(req, encoding='utf-8', errors='surrogateescape'):
        line = line.rstrip('\n')
        if line.startswith('Z '):
            _, kind, arg = line.split(' ', 2)
            out.append('Z')
            try:
                zi = load(kind, arg)
            except Exception as e:  # noqa
                zi = None
        elif line.startswith('T '):
            for tok in line.split()[1:]:
                if zi is None:
                    out.append('ERR')
                    continue
                try:
                    dt = (EPOCH + timedelta(seconds=int(tok))).astimezone(zi)
                    off = dt.utcoffset()
                    dst = dt.dst()
                    out.append('%d %d %s' % (round(off.total_seconds()), 1 if dst else 0, dt.tzname()))
                except Exception:
                    out.append('ERR')
    with open(outp, 'w') as f:
        f.write('\n'.join(out) + '\n')


if __name__ == '__main__':
    main()

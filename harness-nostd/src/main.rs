//! C11 (and the float helpers behind it) across jiff's `std` / no-`std` configurations: seeded span rounding and
//! totals relative to civil and POSIX-zoned references; one result line per case, compared offline between the build
//! with jiff's std feature and the build without it.

use jiff::civil::{Date, DateTime};
use jiff::tz::TimeZone;
use jiff::{RoundMode, SignedDuration, Span, SpanRound, Timestamp, Unit, Zoned};
use std::io::Write;

struct Rng(u64);
impl Rng {
    fn next(&mut self) -> u64 {
        self.0 ^= self.0 << 13;
        self.0 ^= self.0 >> 7;
        self.0 ^= self.0 << 17;
        self.0.wrapping_mul(0x2545F4914F6CDD1D)
    }
    fn below(&mut self, n: u64) -> u64 {
        self.next() % n.max(1)
    }
    fn range(&mut self, lo: i64, hi: i64) -> i64 {
        lo + self.below((hi - lo + 1) as u64) as i64
    }
}

const UNITS: [Unit; 10] = [Unit::Nanosecond, Unit::Microsecond, Unit::Millisecond, Unit::Second, Unit::Minute, Unit::Hour, Unit::Day, Unit::Week, Unit::Month, Unit::Year];
const MODES: [RoundMode; 9] = [RoundMode::Ceil, RoundMode::Floor, RoundMode::Expand, RoundMode::Trunc, RoundMode::HalfCeil, RoundMode::HalfFloor, RoundMode::HalfExpand, RoundMode::HalfTrunc, RoundMode::HalfEven];
const ZONES: [&str; 4] = ["EST5EDT,M3.2.0,M11.1.0", "CET-1CEST,M3.5.0,M10.5.0/3", "<+1030>-10:30<+11>-11,M10.1.0,M4.1.0", "UTC0"];

fn gen_span(r: &mut Rng) -> Span {
    let caps: [i64; 10] = [4_000_000_000, 4_000_000, 4_000_000, 400_000, 60_000, 2_000, 3_000, 400, 120, 30];
    let sign = if r.below(2) == 0 { 1 } else { -1 };
    let mut s = Span::new();
    for _ in 0..1 + r.below(4) {
        let u = r.below(10) as usize;
        // exact multiples matter (floor/ceil of an integer): small round values are frequent
        let v = sign * match r.below(4) {
            0 => r.range(1, 4),
            1 => r.range(1, 60),
            _ => r.range(1, caps[u]),
        };
        s = match u {
            0 => s.try_nanoseconds(v),
            1 => s.try_microseconds(v),
            2 => s.try_milliseconds(v),
            3 => s.try_seconds(v),
            4 => s.try_minutes(v),
            5 => s.try_hours(v),
            6 => s.try_days(v),
            7 => s.try_weeks(v),
            8 => s.try_months(v),
            _ => s.try_years(v),
        }
        .unwrap_or(s);
    }
    s
}

fn main() {
    let args: Vec<String> = std::env::args().collect();
    let get = |k: &str| args.iter().position(|a| a == k).and_then(|i| args.get(i + 1)).cloned();
    let seed: u64 = get("--seed").and_then(|s| s.parse().ok()).unwrap_or(0);
    let shard = get("--shard").unwrap_or_else(|| "0/1".into());
    let (si, sn) = shard.split_once('/').map(|(a, b)| (a.parse::<u64>().unwrap_or(0), b.parse::<u64>().unwrap_or(1))).unwrap_or((0, 1));
    let thorough = get("--tier").as_deref() == Some("thorough");
    let out = get("--out").unwrap_or_else(|| "/dev/null".into());
    let flavour = get("--flavour").unwrap_or_default();
    let mut n: u64 = args.iter().find_map(|a| a.strip_prefix("n=").and_then(|v| v.parse().ok())).unwrap_or(if thorough { 4_000_000 } else { 300_000 });
    // replay of one case: --case nstd|<nshards>|<shard>|<index> prints that case's line only
    let case: Option<Vec<u64>> = get("--case").map(|c| c.split('|').skip(1).filter_map(|x| x.parse().ok()).collect());
    let (si, sn) = match &case {
        Some(c) if c.len() == 3 => {
            n = c[2] + 1;
            (c[1], c[0])
        }
        _ => (si, sn),
    };
    let out = if case.is_some() { "/dev/null".to_string() } else { out };
    let mut r = Rng(0x9E3779B97F4A7C15 ^ seed.wrapping_mul(0x100000001B3) ^ (si + 1).wrapping_mul(0xD6E8FEB86659FD93));
    for _ in 0..8 {
        r.next();
    }
    let zones: Vec<TimeZone> = ZONES.iter().filter_map(|z| TimeZone::posix(z).ok()).collect();
    let mut evals = 0u64;
    let mut log = std::io::BufWriter::new(std::fs::File::create(if case.is_some() { "/dev/null".to_string() } else { format!("{}.c11n", out) }).expect("log file"));
    std::panic::set_hook(Box::new(|_| {}));
    if args.get(1).map(|s| s.as_str()) == Some("c20") {
        // TimeZone handles as values in a build without std: every kind of handle that exists there (UTC, fixed,
        // POSIX, TZif from bytes) is created, cloned, queried through its clones, compared and dropped in seeded order
        let tzif: Vec<(String, Vec<u8>)> = ["America/New_York", "Europe/Dublin", "Australia/Lord_Howe", "Africa/Casablanca", "Asia/Kathmandu"]
            .iter()
            .filter_map(|n| std::fs::read(format!("/usr/share/zoneinfo/{}", n)).ok().map(|b| (n.to_string(), b)))
            .collect();
        let posix = ["EST5EDT,M3.2.0,M11.1.0", "CET-1CEST,M3.5.0,M10.5.0/3", "<+1030>-10:30<+11>-11,M10.1.0,M4.1.0", "UTC0", "IST-1GMT0,M10.5.0,M3.5.0/1", "<-03>3<-02>,M3.5.0/-2,M10.5.0/-1", "EST5"];
        for i in 0..n {
            let mut slots: Vec<(u64, TimeZone)> = Vec::new();
            let mut line = format!("{}", i);
            for _ in 0..r.range(4, 24) {
                match r.below(6) {
                    0 | 1 => {
                        let k = r.below(4);
                        let (tag, tz) = match k {
                            0 => (r.below(7), TimeZone::posix(posix[r.below(7) as usize]).ok()),
                            1 => {
                                let o = r.range(-93_599, 93_599) as i32;
                                (100 + (o as i64 + 100_000) as u64, jiff::tz::Offset::from_seconds(o).ok().map(TimeZone::fixed))
                            }
                            2 => (99, Some(TimeZone::UTC)),
                            _ if !tzif.is_empty() => {
                                let j = r.below(tzif.len() as u64) as usize;
                                (1_000_000 + j as u64, TimeZone::tzif(&tzif[j].0, &tzif[j].1).ok())
                            }
                            _ => (99, Some(TimeZone::UTC)),
                        };
                        // (posix picks the string twice: the tag is only a label, results are what is compared)
                        match tz {
                            Some(tz) => slots.push((tag, tz)),
                            None => line.push_str("|ctor-err"),
                        }
                    }
                    2 if !slots.is_empty() => {
                        let j = r.below(slots.len() as u64) as usize;
                        let c = slots[j].clone();
                        slots.push(c);
                    }
                    3 if !slots.is_empty() => {
                        let j = r.below(slots.len() as u64) as usize;
                        drop(slots.swap_remove(j));
                    }
                    4 if !slots.is_empty() => {
                        let j = r.below(slots.len() as u64) as usize;
                        let ts = if r.below(3) == 0 { r.range(-60_000_000_000, 250_000_000_000) } else { r.range(-3_000_000_000, 5_000_000_000) };
                        let ts = Timestamp::new(ts, 0).unwrap_or(Timestamp::UNIX_EPOCH);
                        let tz = &slots[j].1;
                        let info = tz.to_offset_info(ts);
                        line.push_str(&format!("|q{}:{}:{:?}:{}:{:?}:{:?}", ts.as_second(), info.offset().seconds(), info.dst(), info.abbreviation(), tz.iana_name(), tz.to_fixed_offset().ok().map(|o| o.seconds())));
                        let dt = tz.to_datetime(ts);
                        line.push_str(&format!(":{}:{:?}", dt, tz.to_ambiguous_timestamp(dt).compatible().ok().map(|t| t.as_second())));
                    }
                    _ if slots.len() >= 2 => {
                        let a = r.below(slots.len() as u64) as usize;
                        let b = r.below(slots.len() as u64) as usize;
                        line.push_str(&format!("|e{}{}{}", (slots[a].1 == slots[b].1) as u8, (slots[b].1 == slots[a].1) as u8, (slots[a].1.clone() == slots[a].1) as u8));
                        line.push_str(&format!("{:?}", slots[a].1).len().to_string().as_str());
                    }
                    _ => {}
                }
            }
            while let Some((_, tz)) = slots.pop() {
                let ts = Timestamp::new(r.range(-60_000_000_000, 250_000_000_000), 0).unwrap_or(Timestamp::UNIX_EPOCH);
                line.push_str(&format!("|d{}", tz.to_offset(ts).seconds()));
                drop(tz);
            }
            evals += 1;
            let _ = log.write_all(&fnv(&line).to_le_bytes());
            if case.is_some() && i + 1 == n {
                println!("{}", line);
                return;
            }
        }
        let _ = log.flush();
        finish(&out, "c20", &flavour, seed, si, sn, evals, n, 0);
        return;
    }
    if args.get(1).map(|s| s.as_str()) == Some("c12") {
        // SignedDuration <-> float conversions (trunc / fract / round of the no-std float routines)
        for i in 0..n {
            let f = gen_f64(&mut r);
            let g = gen_f64(&mut r);
            let d = SignedDuration::new(r.range(-4_000_000_000, 4_000_000_000), r.range(0, 999_999_999) as i32);
            let sd = |x: Result<SignedDuration, jiff::Error>| x.map(|d| format!("{}s{}ns", d.as_secs(), d.subsec_nanos())).unwrap_or_else(|_| "Err".into());
            let small = if g.is_finite() && g.abs() < 1e6 && g.abs() > 1e-6 { g } else { 1.5 };
            let line = format!(
                "{}\t{:016x}\t{}\t{}\t{:016x}\t{:08x}\t{}\t{}",
                i,
                f.to_bits(),
                sd(SignedDuration::try_from_secs_f64(f)),
                sd(SignedDuration::try_from_secs_f32(f as f32)),
                d.as_secs_f64().to_bits(),
                d.as_secs_f32().to_bits(),
                std::panic::catch_unwind(|| d.mul_f64(small)).map(|d| sd(Ok(d))).unwrap_or_else(|_| "panic".into()),
                std::panic::catch_unwind(|| d.div_f64(small)).map(|d| sd(Ok(d))).unwrap_or_else(|_| "panic".into()),
            );
            evals += 6;
            let _ = log.write_all(&fnv(&line).to_le_bytes());
            if case.is_some() && i + 1 == n {
                println!("{}", line);
                return;
            }
        }
        let _ = log.flush();
        finish(&out, "c12", &flavour, seed, si, sn, evals, n, 0);
        return;
    }
    let mut errs = 0u64;
    for i in 0..n {
        let span = gen_span(&mut r);
        let date = loop {
            if let Ok(d) = Date::new(r.range(-2000, 6000) as i16, r.range(1, 12) as i8, r.range(1, 31) as i8) {
                break d;
            }
        };
        let dt: DateTime = date.at(r.range(0, 23) as i8, r.range(0, 59) as i8, r.range(0, 59) as i8, if r.below(2) == 0 { 0 } else { r.range(0, 999_999_999) as i32 });
        let zoned: Option<Zoned> = if zones.is_empty() { None } else { dt.to_zoned(zones[r.below(zones.len() as u64) as usize].clone()).ok() };
        let smallest = UNITS[r.below(10) as usize];
        let largest = UNITS[r.below(10) as usize];
        let inc = *[1i64, 1, 1, 2, 3, 5, 10, 15].get(r.below(8) as usize).unwrap();
        let mode = MODES[r.below(9) as usize];
        let mk = || {
            let o = SpanRound::new().smallest(smallest).increment(inc).mode(mode);
            if largest >= smallest {
                o.largest(largest)
            } else {
                o
            }
        };
        let kind = r.below(3);
        let (rounded, total) = match kind {
            0 => (span.round(mk().relative(date)), span.total((smallest, date))),
            1 => (span.round(mk().relative(dt)), span.total((smallest, dt))),
            _ => match &zoned {
                Some(z) => (span.round(mk().relative(z)), span.total((smallest, z))),
                None => (span.round(mk().relative(dt)), span.total((smallest, dt))),
            },
        };
        evals += 2;
        let rs = match rounded {
            Ok(s) => format!("{}", s),
            Err(_) => {
                errs += 1;
                "Err".to_string()
            }
        };
        let ts = match total {
            Ok(t) => format!("{:016x}", t.to_bits()),
            Err(_) => "Err".to_string(),
        };
        let line = format!("{}\t{}\t{}\t{}\t{:?}\t{:?}\t{}\t{:?}\t{}\t{}", i, span, if kind == 2 { zoned.as_ref().map(|z| z.to_string()).unwrap_or_default() } else if kind == 1 { dt.to_string() } else { date.to_string() }, kind, smallest, largest, inc, mode, rs, ts);
        let _ = log.write_all(&fnv(&line).to_le_bytes());
        if case.is_some() && i + 1 == n {
            println!("{}", line);
            return;
        }
    }
    let _ = log.flush();
    let _ = Timestamp::UNIX_EPOCH;
    finish(&out, "c11", &flavour, seed, si, sn, evals, n, errs);
}

/// The recorded log holds one 64-bit hash per case (the line itself is reproduced by `--case`).
fn fnv(s: &str) -> u64 {
    let mut h = 0xcbf29ce484222325u64;
    for b in s.bytes() {
        h = (h ^ b as u64).wrapping_mul(0x100000001b3);
    }
    h
}

fn gen_f64(r: &mut Rng) -> f64 {
    match r.below(8) {
        0 => f64::from_bits(r.next()),
        1 => r.range(-4_000_000_000, 4_000_000_000) as f64,
        // halves of a nanosecond and values just beside them
        2 => r.range(-4_000_000, 4_000_000) as f64 + (r.range(0, 2_000_000_000) as f64 + 0.5) * 0.5e-9,
        3 => (r.range(-1_000_000_000_000, 1_000_000_000_000) as f64) * 1e-9,
        4 => (i64::MAX as f64) * [1.0, -1.0, 0.5, -0.5, 0.999999, 1.000001][r.below(6) as usize],
        5 => f64::from_bits((r.next() & 0x800F_FFFF_FFFF_FFFF) | ((1023 + r.below(70)) << 52)),
        6 => [0.0, -0.0, 0.5, -0.5, 1.0, -1.0, 0.999999999, 0.9999999995, -0.9999999995, 1e-9, 0.5e-9, 0.49e-9, f64::NAN, f64::INFINITY, f64::NEG_INFINITY, f64::MIN_POSITIVE][r.below(16) as usize],
        _ => (r.range(-100_000, 100_000) as f64) / (1 + r.below(1000)) as f64,
    }
}

/// A minimal shard report in the format the driver merges.
#[allow(clippy::too_many_arguments)]
fn finish(out: &str, prop: &str, flavour: &str, seed: u64, si: u64, sn: u64, evals: u64, n: u64, errs: u64) {
    let rep = format!(
        "{{\"property\":\"{}\",\"flavour\":\"{}\",\"seed\":{},\"shard\":{},\"nshards\":{},\"evaluations\":{},\"distinct_nontrivial\":0,\"nt_overflow\":0,\"samples\":[],\"counters\":{{\"nostd_cases\":{},\"nostd_errs\":{}}},\"violations\":[],\"violations_total\":0,\"inconclusive\":[],\"notes\":[]}}",
        prop, flavour, seed, si, sn, evals, n, errs
    );
    if out != "/dev/null" {
        let _ = std::fs::write(out, rep);
    }
    println!("jvn {}: {} cases", if cfg!(feature = "std") { "std" } else { "no-std" }, n);
}
